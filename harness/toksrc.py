"""Model-based testing of the real Tokenizer class against spec/TokenSource.tla: TLC explores
every sequence of parser calls (bounded) over a synthetic raw token stream, checking the
token-source laws on the model; each behaviour is replayed into the real class and compared
observation by observation."""
from __future__ import annotations

import os
import re

from .core import Run
from .pool import run_ops
from .tlc import read_export, run_tlc

# source texts whose raw token stream is given to the model (kinds assigned by a tiny lexer below, independent of the tokenizer)
STREAMS = ["f!(a, [b, c] d)x\n", "f!( a,b )\n", "g!()\n", "h!(a))\n", "k!(a]\n", "m!((a,b), {c: d}\n", "p!(a, )#c\nq\n", "r!(,a)\n", "s!(a\n\nb)\n"]
_LEX = re.compile(r"(?P<NAME>\w+)|(?P<OPX>!\()|(?P<OP>[()\[\]{},:])|(?P<WS>[ \t]+)|(?P<COMMENT>#[^\n]*)|(?P<NEWLINE>\n)")


def raw_tokens(src: str) -> list[dict]:
    out, seen_sig = [], False
    for m in _LEX.finditer(src):
        ty = m.lastgroup
        if ty == "OPX":
            ty = "OP"
        if ty == "NEWLINE":
            # inside brackets CPython-style tokenizers emit NL; a simple depth count is enough for these streams
            depth = sum(1 for t in out if t["ty"] == "OP" and t["s"][-1] in "([{") - sum(1 for t in out if t["ty"] == "OP" and t["s"] in ")]}")
            ty = "NL" if depth > 0 or not seen_sig else "NEWLINE"
            seen_sig = False
        elif ty in ("NAME", "OP"):
            seen_sig = True
        out.append({"ty": ty, "s": m.group(0) if ty == "OP" else "", "b": m.start(), "e": m.end()})
    out.append({"ty": "ENDMARKER", "s": "", "b": len(src), "e": len(src)})
    return out


def conformance(run: Run, maxcalls: int) -> list[dict]:
    """returns the list of mismatches (drift) and law violations observed on the real class"""
    problems = []
    for si, src in enumerate(STREAMS):
        raw = raw_tokens(src)
        f = os.path.join(run.dir, f"toksrc{si}.ndjson")
        cfg = ("INIT Init\nNEXT Next\nVIEW View\nINVARIANT IndexOK\nINVARIANT PushbackAtMostOne\nINVARIANT NoBlankDelivered\nINVARIANT ExhaustionIsError\n"
               "INVARIANT CaptureIsSlice\nINVARIANT Export\nPROPERTY CacheAppendOnly\nCHECK_DEADLOCK FALSE\n")
        st = run_tlc(run, "TokenSource", cfg.replace("INIT Init\nNEXT Next\n", "SPECIFICATION Spec\n"), env={"OUT": f}, name=f"toksrc{si}", expect_violation=True, workers=1,
                     consts={"Raw": raw, "MaxCalls": maxcalls})
        if st["violated"]:
            problems.append({"kind": "model_law_violated", "stream": src, "law": st["violated"]})
        hists = [h["hist"] for h in read_export(f)]
        os.remove(f)
        if not hists:
            continue
        res = run_ops("toksrc", [{"src": src, "raw": raw, "histories": hists[i: i + 400]} for i in range(0, len(hists), 400)], limit=60.0, batch=1)
        k = 0
        for r in res:
            for obs in r["observations"]:
                want = hists[k]
                k += 1
                run.note("toksrc_behaviours_replayed")
                for j, (o, w) in enumerate(zip(obs, want)):
                    if o["err"] not in ("", "SyntaxError") or not o.get("slice_ok", True):
                        problems.append({"kind": "law_violated_by_real_class", "stream": src, "calls": [[x["op"], x["arg"]] for x in want[: j + 1]], "observed": o})
                        break
                    keys = ("index", "n", "call", "proc", "stack", "err", "ty") + (("b", "e") if w["ty"] == "MACRO_PARAM" else ())
                    if any(o[x] != w[x] for x in keys):
                        problems.append({"kind": "drift", "stream": src, "calls": [[x["op"], x["arg"]] for x in want[: j + 1]],
                                         "observed": {x: o[x] for x in keys}, "model": {x: w[x] for x in keys}})
                        break
    return problems
