"""Model-based testing of the real Tokenizer class against spec/TokenSource.tla: TLC explores
every sequence of parser calls (bounded) over a synthetic raw token stream, checking the
token-source laws on the model; each behaviour is replayed into the real class and compared
observation by observation."""
from __future__ import annotations

import os
import re

from .core import Run
from .pool import run_ops
from .tlc import read_export, run_tlc

# source texts whose raw token stream is given to the model (kinds assigned by a tiny lexer below, independent of the tokenizer)
STREAMS = ["f!(a, [b, c] d)x\n", "f!( a,b )\n", "g!()\n", "h!(a))\n", "k!(a]\n", "m!((a,b), {c: d}\n", "p!(a, )#c\nq\n", "r!(,a)\n", "s!(a\n\nb)\n"]
# line-structured sources for the with-macro capture (INDENT / DEDENT / NEWLINE / NL / COMMENT tokens from the layout)
WITH_STREAMS = ["w c:\n    a b\n    d\ne\n", "w c: a b\nd\n", "w c:\n  a\n    b\n  c\n\n  # k\n  d\ne f\n", "if a:\n  w c:\n    x\n  y\nz\n",
                "w c:\n    a", "w c:\n", "w c: a", "w c:\n    a\n# t\n\nb\n", "w c:\n  a\nw d:\n  b\nc\n",
                "w c:\n    # k\n\n    a\nb\n", "w c:\n  a\n  # in\n# out\n\n  # in2\nb\n", "w c:\n# only\nz\n", "w c:\n    # only\n"]
_LEX = re.compile(r"(?P<NAME>\w+)|(?P<OPX>!\()|(?P<OP>[()\[\]{},:])|(?P<WS>[ \t]+)|(?P<COMMENT>#[^\n]*)|(?P<NEWLINE>\n)")


def raw_tokens(src: str) -> list[dict]:
    out, seen_sig = [], False
    for m in _LEX.finditer(src):
        ty = m.lastgroup
        if ty == "OPX":
            ty = "OP"
        if ty == "NEWLINE":
            # inside brackets CPython-style tokenizers emit NL; a simple depth count is enough for these streams
            depth = sum(1 for t in out if t["ty"] == "OP" and t["s"][-1] in "([{") - sum(1 for t in out if t["ty"] == "OP" and t["s"] in ")]}")
            ty = "NL" if depth > 0 or not seen_sig else "NEWLINE"
            seen_sig = False
        elif ty in ("NAME", "OP"):
            seen_sig = True
        out.append({"ty": ty, "s": m.group(0) if ty == "OP" else ("n" if ty == "NEWLINE" else ""), "b": m.start(), "e": m.end()})
    out.append({"ty": "ENDMARKER", "s": "", "b": len(src), "e": len(src)})
    return out


def raw_tokens_lines(src: str) -> list[dict]:
    """raw token stream of a line-structured source (spaces-only indentation): the layout tokens a Python tokenizer produces,
    each with its line number ln; offsets b / e are columns within the line"""
    out, stack = [], [0]
    lines = src.split("\n")
    if lines and lines[-1] == "":
        lines.pop()
        ends = ["\n"] * len(lines)
    else:
        ends = ["\n"] * (len(lines) - 1) + [""]
    for ln, (text, end) in enumerate(zip(lines, ends), 1):
        body = text.lstrip(" ")
        col = len(text) - len(body)
        if body == "" or body.startswith("#"):
            if body:
                out.append({"ty": "COMMENT", "s": "", "b": col, "e": len(text), "ln": ln})
            if end:
                out.append({"ty": "NL", "s": "", "b": len(text), "e": len(text) + 1, "ln": ln})
            continue
        if col > stack[-1]:
            stack.append(col)
            out.append({"ty": "INDENT", "s": "", "b": 0, "e": col, "ln": ln})
        while col < stack[-1]:
            stack.pop()
            out.append({"ty": "DEDENT", "s": "", "b": col, "e": col, "ln": ln})
        for m in _LEX.finditer(text, col):
            ty = m.lastgroup
            if ty in ("NEWLINE", "WS"):
                if ty == "WS":
                    out.append({"ty": "WS", "s": "", "b": m.start(), "e": m.end(), "ln": ln})
                continue
            out.append({"ty": "OP" if ty in ("OP", "OPX") else ty, "s": m.group(0) if ty in ("OP", "OPX") else "", "b": m.start(), "e": m.end(), "ln": ln})
        # the NEWLINE of a line without terminator is the implicit one (empty text)
        out.append({"ty": "NEWLINE", "s": "n" if end else "", "b": len(text), "e": len(text) + 1, "ln": ln})
    last = len(lines) + 1
    while len(stack) > 1:
        stack.pop()
        out.append({"ty": "DEDENT", "s": "", "b": 0, "e": 0, "ln": last})
    out.append({"ty": "ENDMARKER", "s": "", "b": 0, "e": 0, "ln": last})
    return out


def conformance(run: Run, maxcalls: int) -> list[dict]:
    """returns the list of mismatches (drift) and law violations observed on the real class"""
    problems = []
    for si, src in enumerate(STREAMS + WITH_STREAMS):
        lined = si >= len(STREAMS)
        raw = raw_tokens_lines(src) if lined else [dict(t, ln=1) for t in raw_tokens(src)]
        f = os.path.join(run.dir, f"toksrc{si}.ndjson")
        cfg = ("INIT Init\nNEXT Next\nVIEW View\nINVARIANT IndexOK\nINVARIANT PushbackAtMostOne\nINVARIANT NoBlankDelivered\nINVARIANT ExhaustionIsError\n"
               "INVARIANT CaptureIsSlice\nINVARIANT WithCaptureIsBlock\nINVARIANT Export\nPROPERTY CacheAppendOnly\nPROPERTY WithFlagClearedAtDedent\nCHECK_DEADLOCK FALSE\n")
        st = run_tlc(run, "TokenSource", cfg.replace("INIT Init\nNEXT Next\n", "SPECIFICATION Spec\n"), env={"OUT": f}, name=f"toksrc{si}", expect_violation=True, workers=1,
                     consts={"Raw": raw, "MaxCalls": (maxcalls if not lined else max(6, maxcalls - 3)), "AllowWith": lined})
        if st["violated"]:
            problems.append({"kind": "model_law_violated", "stream": src, "law": st["violated"]})
        if not os.path.exists(f):
            continue
        hists = [h["hist"] for h in read_export(f)]
        os.remove(f)
        if not hists:
            continue
        res = run_ops("toksrc", [{"src": src, "raw": raw, "lined": lined, "histories": hists[i: i + 400]} for i in range(0, len(hists), 400)], limit=60.0, batch=1)
        k = 0
        for r in res:
            for obs in r["observations"]:
                want = hists[k]
                k += 1
                run.note("toksrc_behaviours_replayed")
                for j, (o, w) in enumerate(zip(obs, want)):
                    if o["err"] not in ("", "SyntaxError") or not o.get("slice_ok", True):
                        problems.append({"kind": "law_violated_by_real_class", "stream": src, "calls": [[x["op"], x["arg"]] for x in want[: j + 1]], "observed": o})
                        break
                    keys = ("index", "n", "call", "proc", "with", "stack", "err", "ty") + (("b", "e") if w["ty"] == "MACRO_PARAM" and not lined else ())
                    if w["ty"] == "MACRO_PARAM" and lined and not o["err"]:
                        # the captured text must be exactly the source lines the model says were captured
                        import textwrap

                        src_lines = src.split("\n")

                        def text_of(l):
                            return (src_lines[l - 1] + ("\n" if l < len(src_lines) else "")) if l <= len(src_lines) else ""

                        if w["oneline"]:      # not the block form: every line from the column of the token that put it in
                            expected = "".join(text_of(e[0])[e[1]:] for e in w["ls"])
                        else:
                            expected = textwrap.dedent("".join(text_of(e[0]) for e in w["ls"]))
                        if o.get("text") != expected:
                            problems.append({"kind": "law_violated_by_real_class", "stream": src, "calls": [[x["op"], x["arg"]] for x in want[: j + 1]],
                                             "observed": {"captured": o.get("text")}, "model": {"lines": w["ls"], "expected": expected}})
                            break
                    if any(o[x] != w[x] for x in keys):
                        problems.append({"kind": "drift", "stream": src, "calls": [[x["op"], x["arg"]] for x in want[: j + 1]],
                                         "observed": {x: o[x] for x in keys}, "model": {x: w[x] for x in keys}})
                        break
    return problems
