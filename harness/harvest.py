"""pytest plugin (used once, offline, to build corpus/harvest.json): records every text the
repository's own tests feed to parse_string / parse_file / generate_tokens."""
import json
import os

OUT = os.environ.get("VERIF_HARVEST", "/tmp/harvest.ndjson")


def pytest_configure(config):
    from peg_parser import subheader, tokenize

    seen = set()
    fh = open(OUT, "a")

    def rec(kind, src, mode):
        key = (kind, src, mode)
        if key in seen or not isinstance(src, str):
            return
        seen.add(key)
        fh.write(json.dumps({"kind": kind, "src": src, "mode": mode}) + "\n")
        fh.flush()

    orig_ps = subheader.Parser.parse_string.__func__
    orig_pf = subheader.Parser.parse_file.__func__

    def parse_string(cls, source, mode="eval", *a, **k):
        rec("parse_string", source, mode)
        return orig_ps(cls, source, mode, *a, **k)

    def parse_file(cls, path, *a, **k):
        try:
            rec("parse_file", open(path).read(), "exec")
        except Exception:
            pass
        return orig_pf(cls, path, *a, **k)

    subheader.Parser.parse_string = classmethod(parse_string)
    subheader.Parser.parse_file = classmethod(parse_file)
    orig_gt = tokenize.generate_tokens

    def generate_tokens(readline):
        if isinstance(readline, str):
            rec("tokens", readline, "")
        return orig_gt(readline)

    tokenize.generate_tokens = generate_tokens
