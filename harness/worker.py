"""Worker process: executes harness.impl operations against the repository under test."""
import json
import os
import signal
import sys
import traceback
import warnings

warnings.simplefilter("ignore")

REPO = os.environ.get("VERIF_REPO", "/repo")
sys.path.insert(0, REPO)
sys.setrecursionlimit(int(os.environ.get("VERIF_RECLIMIT", "1000")))

# the code under test may print (verbose=True): keep the protocol channel private
_out = os.fdopen(os.dup(1), "w", buffering=1)
_devnull = open(os.devnull, "w")
os.dup2(_devnull.fileno(), 1)
sys.stdout = _devnull

from harness import impl  # noqa: E402


def _alarm(signum, frame):
    raise impl.HangTimeout()


signal.signal(signal.SIGALRM, _alarm)


def main():
    for line in sys.stdin:
        if not line.strip():
            continue
        msg = json.loads(line)
        fn = getattr(impl, "op_" + msg["op"])
        impl.LIMIT[0] = msg["limit"]
        for i, case in zip(msg["idx"], msg["cases"]):
            signal.setitimer(signal.ITIMER_REAL, msg["limit"])
            try:
                r = fn(case)
            except impl.HangTimeout:
                r = {"hang": True}
            except BaseException:  # noqa: BLE001
                r = {"impl_error": traceback.format_exc()[-1500:]}
            finally:
                signal.setitimer(signal.ITIMER_REAL, 0)
            _out.write(json.dumps({"i": i, "r": r}, default=str) + "\n")
            _out.flush()


if __name__ == "__main__":
    main()
