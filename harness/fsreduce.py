"""Explanation machinery for the known f-string findings (C10).

neutralise(src) rewrites every f-string literal of `src`, removing exactly the features that the
listed known findings are about (doubled braces at token level, non-ASCII
characters) and returns the rewritten text plus the set of families it touched.  A difference
between the implementation and CPython counts as *explained* only if the rewritten text -- the
same literal without those features -- shows no difference at all; otherwise it stays a
violation.  The scanner is deliberately simple: when it mis-reads a literal the rewritten text
just fails to agree and the case is reported.
"""
from __future__ import annotations

import io
import tokenize

PREFIX = set("fFrRbBuUpP")


def _skip_string(s: str, i: int) -> int:
    """s[i] is a quote character: return the index just after the string literal"""
    q = s[i]
    if s.startswith(q * 3, i):
        end = s.find(q * 3, i + 3)
        return len(s) if end < 0 else end + 3
    j = i + 1
    while j < len(s):
        if s[j] == "\\":
            j += 2
            continue
        if s[j] == q:
            return j + 1
        j += 1
    return len(s)


def _scan_field(s: str, i: int, out: list, fam: set, raw: bool = False) -> int:
    """s[i] == '{' opening a replacement field; appends the rewritten field, returns index after '}'"""
    depth, j = 0, i + 1
    expr_start = j
    # expression part: up to a top-level '!', ':', '}' (or '=' directly before one of them)
    while j < len(s):
        c = s[j]
        if c in "'\"":
            j = _skip_string(s, j)
            continue
        if c == "#":                      # a comment inside a multi-line field runs to the end of its line
            e = s.find("\n", j)
            j = len(s) if e < 0 else e
            continue
        if c in "([{":
            depth += 1
        elif c in ")]}":
            if depth == 0 and c == "}":
                break
            depth -= 1
        elif depth == 0 and c == "!" and not s.startswith("!=", j):
            break
        elif depth == 0 and c == ":":
            break
        j += 1
    expr = s[expr_start:j]
    if not expr.isascii():
        fam.add("nonascii")
        expr = "".join(ch if ch.isascii() else "e" for ch in expr)
    out.append("{" + expr)
    if j < len(s) and s[j] == "!":
        k = j
        while k < len(s) and s[k] not in ":}":
            k += 1
        out.append(s[j:k])
        j = k
    if j < len(s) and s[j] == ":":
        # format spec up to the matching '}'
        k, d = j + 1, 0
        spec = []
        while k < len(s):
            c = s[k]
            if c == "\\" and not raw and s.startswith("\\N{", k):      # a named escape is literal text (kept as it is)
                e = s.find("}", k)
                e = len(s) if e < 0 else e + 1
                spec.append(s[k:e])
                k = e
                continue
            if c == "{":
                # nested replacement field (braces are not doubled inside a spec): rewritten like any other field
                k = _scan_field(s, k, spec, fam, raw)
                continue
            if c == "}":
                break
            spec.append(c)
            k += 1
        text = "".join(spec)
        out.append(":" + text)
        j = k
    out.append("}")
    return j + 1


def _rewrite_fstring(lit: str, fam: set) -> str:
    """lit = one complete f-string literal (prefix + quote + body + quote)"""
    i = 0
    while i < len(lit) and lit[i] in PREFIX:
        i += 1
    prefix = lit[:i]
    raw = "r" in prefix.lower()
    q = lit[i: i + 3] if lit.startswith(lit[i] * 3, i) else lit[i]
    body = lit[i + len(q): len(lit) - len(q)]
    out, j = [], 0
    while j < len(body):
        c = body[j]
        if body.startswith("{{", j) or body.startswith("}}", j):
            fam.add("doubled_brace")
            out.append("<" if c == "{" else ">")
            j += 2
        elif c == "\\" and not raw and body.startswith("\\N{", j):     # a named escape is literal text (kept as it is)
            e = body.find("}", j)
            e = len(body) if e < 0 else e + 1
            out.append(body[j:e])
            j = e
        elif c == "\\" and j + 1 < len(body) and body[j + 1] == "{":       # the backslash is text, the brace opens a field
            out.append(c)
            j += 1
        elif c == "\\":
            out.append(body[j: j + 2])
            j += 2
        elif c == "{":
            j = _scan_field(body, j, out, fam, raw)
        elif not c.isascii():
            fam.add("nonascii")
            out.append("e")
            j += 1
        else:
            out.append(c)
            j += 1
    return prefix + q + "".join(out) + q


def neutralise(src: str) -> tuple[str, set]:
    fam: set = set()
    try:
        toks = list(tokenize.generate_tokens(io.StringIO(src).readline))
    except (tokenize.TokenError, SyntaxError, IndentationError):
        return src, fam
    lines = io.StringIO(src).readlines()          # exactly the lines the tokenizer was given (split at LF only)
    off = [0]
    for ln in lines:
        off.append(off[-1] + len(ln))
    spans, depth, start = [], 0, None
    for t in toks:
        if t.type == tokenize.FSTRING_START:
            if depth == 0:
                start = off[t.start[0] - 1] + t.start[1]
            depth += 1
        elif t.type == tokenize.FSTRING_END:
            depth -= 1
            if depth == 0 and start is not None:
                spans.append((start, off[t.end[0] - 1] + t.end[1]))
    out, last = [], 0
    for a, b in spans:
        out.append(src[last:a])
        out.append(_rewrite_fstring(src[a:b], fam))
        last = b
    out.append(src[last:])
    res = "".join(out)
    if not res.isascii():
        fam.add("nonascii")
        res = "".join(ch if ch.isascii() else "e" for ch in res)
    return res, fam


FAMILY_FINDING = {
    "doubled_brace": "K-C10-doubled-brace-tokens",
    "nonascii": "K-C10-nonascii-columns",
}
