"""Explanation matchers for known findings.  explains(finding, violation_record) must return
True only if the listed defect accounts for the whole violation; anything else stays a VIOLATION.
"""
from __future__ import annotations

import re


def explains(f: dict, rec: dict) -> bool:
    fn = globals().get("m_" + f.get("matcher", ""))
    if fn is None:
        return False
    try:
        return bool(fn(f, rec))
    except Exception:  # noqa: BLE001  a matcher that cannot decide explains nothing
        return False


def m_c08_continued_comment_eof(f, rec):
    if rec["clause"] != "closed_line_without_newline":
        return False
    src = rec["case"]["src"]
    lines = src.split("\n")
    if len(lines) < 2 or src.endswith("\n"):
        return False
    last = lines[-1]
    if not last.strip().startswith("#"):
        return False
    prev = lines[-2]
    return prev.rstrip("\r").endswith("\\")


def m_c07_with_leading_comment(f, rec):
    c = rec["case"]
    if c.get("kind") != "with":
        return False
    lines = c["src"].split("\n")
    try:
        i = next(k for k, ln in enumerate(lines) if ln.strip().startswith("with!"))
    except StopIteration:
        return False
    body = [ln for ln in lines[i + 1:] if ln.strip()]
    return bool(body) and body[0].strip().startswith("#")


def m_c07_procmacro_special(f, rec):
    c = rec["case"]
    if c.get("kind") != "proc":
        return False
    want = (rec.get("detail") or {}).get("want") or []
    rest = want[1] if len(want) > 1 else ""
    return "`" in rest or "f'" in rest or 'f"' in rest


def m_c14_with_trailing_blank_or_comment(f, rec):
    """the whole difference is: blank/comment lines that follow a with! block were appended to its
    captured body (possibly defeating the dedent)"""
    import ast
    import textwrap

    if rec["clause"] != "field_values":
        return False
    d = (rec.get("detail") or {}).get("diff") or {}
    a, b = d.get("impl"), d.get("ref")
    if not a or not b or a[1] != "Constant" or b[1] != "Constant" or not a[8].startswith("value=str:"):
        return False
    try:
        va, vb = ast.literal_eval(a[8][len("value=str:"):]), ast.literal_eval(b[8][len("value=str:"):])
    except Exception:  # noqa: BLE001
        return False
    parts = rec["case"].get("parts") or []
    if not any(p.lstrip().startswith("with!") or "\n    with!" in p for p in parts):
        return False
    # the captured body is the reference body plus a tail of blank lines (blank for the tokenizer: spaces, tabs, form feeds) -
    # the repository's own test asks for them; such a line can defeat the dedent, so compare after removing them.  A comment in
    # the tail is NOT explained: since the capture repair a comment left of the block is not part of the body
    lines_a = va.split("\n")
    while lines_a and not lines_a[-1].strip():
        lines_a.pop()
    core = textwrap.dedent("\n".join(lines_a) + "\n")
    return core == vb and va != vb


def m_c09_lone_cr(f, rec):
    src = rec["case"]["src"]
    return re.search(r"\r(?!\n)", src) is not None


def m_c09_unbalanced_closer(f, rec):
    """a closing bracket without opener (outside strings/comments, per CPython's tokens)"""
    import io
    import tokenize

    if rec["clause"] != "implementation_rejects_what_cpython_tokenizes":
        return False
    depth = 0
    try:
        for t in tokenize.generate_tokens(io.StringIO(rec["case"]["src"]).readline):
            if t.type == tokenize.OP and t.string in "([{":
                depth += 1
            elif t.type == tokenize.OP and t.string in ")]}":
                depth -= 1
                if depth < 0:
                    return True
    except (tokenize.TokenError, SyntaxError):
        return False
    return False


def m_c09_continuation_only_line(f, rec):
    return re.search(r"(^|\n)[ \t\f]*\\\r?\n", rec["case"]["src"]) is not None


def m_c09_continued_comment_eof(f, rec):
    src = rec["case"]["src"]
    lines = src.split("\n")
    if len(lines) < 2 or src.endswith("\n"):
        return False
    return lines[-1].strip().startswith("#") and lines[-2].rstrip("\r").endswith("\\")


def m_c01_nonascii_columns(f, rec):
    """the trees are equal once the implementation's character columns are converted to UTF-8 byte
    columns (computed by the worker on the whole tree: detail.eq_after_bytecols)"""
    return rec["clause"] == "span" and (rec.get("detail") or {}).get("eq_after_bytecols") is True and not rec["case"]["src"].isascii()


def m_c04_starred_glued(f, rec):
    d = rec.get("detail") or {}
    msg = ((d.get("compile_exc") or {}).get("msg") or "")
    if not rec["clause"].startswith("compile_") or "starred expression" not in msg:
        return False
    src = rec["case"]["src"]
    return bool(re.search(r"[^\s(\[]@\$?\(", src) or re.search(r"@\$?\([^()]*(\([^()]*\)[^()]*)*\)[^\s)\]]", src))


def m_c17_single_item_group_action(f, rec):
    """the grammar has a group with one alternative holding one named item and an action, and the observed value is the
    semantic value with that group's action tuple replaced by the bare item value"""
    import json

    gram = rec["case"].get("gram", "")
    if not _has_single_item_group(gram):
        return False
    if rec["clause"] != "action_value_differs_from_semantics":
        return False
    d = rec.get("detail") or {}
    try:
        obs, sem = json.loads(d["observed"][2]), json.loads(d["semantics"][2])
    except Exception:  # noqa: BLE001
        return False

    def match(sv, ov):
        """semantic value vs observed value, where the action tuple of a one-item group may be replaced by the bare item"""
        if sv == ov:
            return True
        if isinstance(sv, list) and sv and isinstance(sv[0], str) and re.fullmatch(r"[a-zA-Z]\w*", sv[0]):
            if len(sv) == 2 and match(sv[1], ov):
                return True          # (x=item { (tag, x) })  ->  item
            if len(sv) == 1 and isinstance(ov, str):
                return True          # (&&'tok' { (tag,) })   ->  the forced token itself
        if isinstance(sv, list) and isinstance(ov, list) and len(sv) == len(ov):
            return all(match(a, b) for a, b in zip(sv, ov))
        return False

    return match(sem, obs)


def _top_items(alt: str) -> list:
    """value-carrying items of one alternative text (before its action), split at depth 0"""
    alt = alt.split(" {", 1)[0] if " {" in alt else alt
    toks, depth, cur = [], 0, ""
    for ch in alt:
        if ch in "([":
            depth += 1
        elif ch in ")]":
            depth -= 1
        if ch == " " and depth == 0:
            if cur:
                toks.append(cur)
            cur = ""
        else:
            cur += ch
    if cur:
        toks.append(cur)
    return [t for t in toks if t != "~" and not t.startswith("!") and not (t.startswith("&") and not t.startswith("&&"))]


def _has_single_item_group(gram: str) -> bool:
    """some parenthesised group has exactly one alternative with exactly one item (named or forced) and an action"""
    stack = []
    for i, ch in enumerate(gram):
        if ch == "(" and (i == 0 or gram[i - 1] in " =&!.[(") and not gram.startswith("('", i):
            stack.append(i)
        elif ch == ")" and stack and not (i >= 2 and gram[i - 1] == ","):
            j = stack.pop()
            body = gram[j + 1: i]
            depth, brace, alts = 0, 0, 1
            for c in body:
                if c == "{":
                    brace += 1
                elif c == "}":
                    brace -= 1
                elif brace == 0:
                    if c in "([":
                        depth += 1
                    elif c in ")]":
                        depth -= 1
                    elif depth == 0 and c == "|":
                        alts += 1
            if alts == 1 and "{" in body and len(_top_items(body)) == 1:
                return True
    # a rule whose only alternative is one group item (Rule.flatten drops the rule's own action)
    for m in re.finditer(r"^r\d+(?: \(memo\))?:\n((?:    \| .*\n?)+)", gram, re.M):
        alts = [ln for ln in m.group(1).split("\n") if ln.strip()]
        if len(alts) == 1 and re.match(r"\s+\| v\d+=\(", alts[0]) and len(re.findall(r"(?<![\w(])v\d+=", re.sub(r"\(.*\)", "()", alts[0]))) <= 1:
            return True
    return False


_C18_BRACKETS = {"paren/paren", "tuple/tuple", "list/list", "set/set", "listcomp/listcomp"}


def m_c18_invalid_nested_brackets(f, rec):
    k = rec["case"].get("family") or []
    if len(k) != 3 or k[0] != "nest":
        return False
    name = k[1]
    if name.startswith("pattern:"):
        return False
    if name.startswith("target:"):
        name = name.split(":", 2)[2]
    a, _, b = name.partition("/")
    plain = {"paren", "tuple", "list", "set", "listcomp", "starred", "dict"}
    if k[2] in ("trailing", "wrong_closer", "missing_operand", "doubled") and a in plain and b in plain:
        return True
    # the same defect reached through brackets of other kinds (subprocess forms, calls, subscripts alternating with displays):
    # every program of the series is REJECTED, i.e. the work was spent in the diagnostic pass
    brackets = plain | {"captured", "object", "uncaptured", "hidden", "pyinproc", "call", "subscript", "kwarg", "slice", "envexpr", "attrcall",
                        "walrus", "binparen", "yieldparen", "genexp", "dictcomp", "compcond", "callmacro"}
    outs = rec["case"].get("outcomes") or []
    step = (rec.get("detail") or {}).get("step") or 0
    # the point that breaks the law is a REJECTED program (an accepted one never is explained by this finding)
    return a in brackets and b in brackets and a != b and 1 <= step <= len(outs) and outs[step - 1] == "exc:SyntaxError"


def m_c18_nested_patterns(f, rec):
    k = rec["case"].get("family") or []
    return len(k) == 3 and k[0] == "nest" and k[1].startswith("pattern:")


_FSTR = re.compile(r"(?i)(?:f|fr|rf)['\"]")


def _cpy_msg(rec):
    return (((rec.get("detail") or {}).get("cpython") or {}).get("msg") or "")


def m_c02_fstring_single_rbrace(f, rec):
    src = rec["case"]["src"]
    return bool(_FSTR.search(src)) and _cpy_msg(rec).startswith("f-string: single '}' is not allowed")


def m_c02_fstring_backslash_brace(f, rec):
    src = rec["case"]["src"]
    return bool(_FSTR.search(src)) and "\\{" in src


def m_c02_number_glued_word(f, rec):
    """a number literal directly followed by a word other than and/else/for/if/in/is/not/or: CPython's tokenizer rejects the
    literal, here NUMBER and NAME are two tokens (the tokenizer also serves subprocess mode, where 2to3 is a word)"""
    m = _cpy_msg(rec)
    return rec["case"].get("origin") == "glued" and m.startswith("invalid ") and "literal" in m


def m_c02_continuation_only_line(f, rec):
    """same defect as K-C09-continuation-only-line: a physical line holding only a backslash is joined without looking at the
    indentation of the line that follows"""
    src = rec["case"]["src"]
    cls = (((rec.get("detail") or {}).get("cpython") or {}).get("cls") or "")
    return bool(re.search(r"(^|\n)[ \t\f]*\\\r?\n", src)) and cls in ("IndentationError", "TabError")


def m_c02_fstring_unclosed_nested_spec(f, rec):
    """a replacement field inside a format spec is not closed: the spec is kept as literal text, so the braces never have to match"""
    src = rec["case"]["src"]
    if not _FSTR.search(src):
        return False
    if not re.search(r":[^{}'\"]*\{", src):
        return False
    m = _cpy_msg(rec)
    return "single '}' is not allowed" in m or "does not match opening parenthesis" in m or "was never closed" in m or "expecting '}'" in m or "nested too deeply" in m or "required for Constant" in m
