"""Grammar family for C17: small grammars as data (the shape Peg.tla consumes), their rendering
in the generator's .gram notation, well-formedness and left-recursion leaders computed
independently of the generator."""
from __future__ import annotations

import random

TOK_GRAM = {"n": "NAME", "1": "NUMBER", "+": "'+'", ",": "','", "kk": "'kk'"}   # "k" is an ordinary name in the token strings


def I(k, t="", r=0, x=None, s=None, alts=None):  # noqa: E743
    return {"k": k, "t": t, "r": r, "x": [x] if x else [], "s": [s] if s else [], "alts": alts or []}


def T(t):
    return I("tok", t=t)


def R(n):
    return I("rule", r=n)


def Opt(x):
    return I("opt", x=x)


def Star(x):
    return I("star", x=x)


def Plus(x):
    return I("plus", x=x)


def Gather(sep, x):
    return I("gather", x=x, s=sep)


def Group(*alts):
    return I("group", alts=list(alts))


def And(x):
    return I("and", x=x)


def Not(x):
    return I("not", x=x)


CUT = I("cut")


def Forced(x):
    return I("forced", x=x)


def A(tag, *items):
    return {"items": list(items), "tag": tag}


def Rl(*alts, memo=False):
    return {"memo": memo, "leader": False, "lr": False, "alts": list(alts)}


# ---------------------------------------------------------------------------------------------
# analyses
# ---------------------------------------------------------------------------------------------
FORCED_MAY_BE_EMPTY = [False]   # the generator's left-recursion analysis treats a forced item as possibly empty


def nullable_item(g, it, seen=()):
    k = it["k"]
    if k == "forced" and FORCED_MAY_BE_EMPTY[0]:
        return True
    if k in ("opt", "star", "and", "not", "cut"):
        return True
    if k == "tok":
        return False
    if k == "rule":
        if it["r"] in seen:
            return False
        return any(nullable_alt(g, a, seen + (it["r"],)) for a in g[it["r"] - 1]["alts"])
    if k in ("plus", "forced"):
        return nullable_item(g, it["x"][0], seen)
    if k == "gather":
        return nullable_item(g, it["x"][0], seen)
    if k == "group":
        return any(nullable_alt(g, a, seen) for a in it["alts"])
    return False


def nullable_alt(g, alt, seen=()):
    return all(nullable_item(g, it, seen) for it in alt["items"])


def first_rules(g, items):
    """rules that can be called at the start position of this item sequence.  Like the generator's own analysis this is
    conservative about forced items (treated as possibly empty), so that the two agree on which grammars have a leader."""
    out = set()
    for it in items:
        k = it["k"]
        if k == "rule":
            out.add(it["r"])
        elif k in ("opt", "star", "plus", "forced", "and", "not"):
            out |= first_rules(g, it["x"])
        elif k == "gather":
            out |= first_rules(g, it["x"])
        elif k == "group":
            for a in it["alts"]:
                out |= first_rules(g, a["items"])
        FORCED_MAY_BE_EMPTY[0] = True
        try:
            stop = not nullable_item(g, it)
        finally:
            FORCED_MAY_BE_EMPTY[0] = False
        if stop:
            break
    return out


def wellformed(g) -> bool:
    def walk_items(items):
        for it in items:
            yield it
            for sub in it["x"] + it["s"]:
                yield from walk_items([sub])
            for a in it["alts"]:
                yield from walk_items(a["items"])

    for r in g:
        for a in r["alts"]:
            if not a["items"] or nullable_alt(g, a):
                return False
            for it in walk_items(a["items"]):
                if it["k"] in ("star", "plus") and nullable_item(g, it["x"][0]):
                    return False
                if it["k"] == "gather" and (nullable_item(g, it["x"][0]) or nullable_item(g, it["s"][0])):
                    return False
                if it["k"] == "group" and any((not ga["items"]) or nullable_alt(g, ga) for ga in it["alts"]):
                    return False
                if it["k"] == "rule" and not (1 <= it["r"] <= len(g)):
                    return False
    # left recursion only through the first item of an alternative, written directly (not hidden)
    n = len(g)
    edges = {i + 1: first_rules(g, [it for a in g[i]["alts"] for it in a["items"][:0]]) for i in range(n)}
    for i in range(n):
        fr = set()
        for a in g[i]["alts"]:
            fr |= first_rules(g, a["items"])
            direct = a["items"][0]
            hidden = first_rules(g, a["items"]) - ({direct["r"]} if direct["k"] == "rule" else set())
            # a rule reachable at position 0 other than the plain first item must not close a cycle (checked below)
            a["_hidden"] = hidden
        edges[i + 1] = fr
    reach = {i: set(edges[i]) for i in edges}
    changed = True
    while changed:
        changed = False
        for i in reach:
            for j in list(reach[i]):
                new = reach[j] - reach[i]
                if new:
                    reach[i] |= new
                    changed = True
    for i in range(n):
        for a in g[i]["alts"]:
            for h in a.pop("_hidden"):
                if (i + 1) in reach.get(h, set()) or h == i + 1:
                    return False
    return True


def set_leaders(g) -> bool:
    """marks the leader of every left-recursive cycle (pegen's rule: a node through which all cycles of its SCC pass; the
    smallest name); returns False if some SCC has no such node (the generator refuses such grammars)"""
    n = len(g)
    edges = {i + 1: set() for i in range(n)}
    for i in range(n):
        for a in g[i]["alts"]:
            edges[i + 1] |= first_rules(g, a["items"])
    for r in g:
        r["leader"] = False
        r["lr"] = False

    def reach_from(src, banned):
        seen, todo = set(), [src]
        while todo:
            x = todo.pop()
            for y in edges[x]:
                if y not in banned and y not in seen:
                    seen.add(y)
                    todo.append(y)
        return seen

    done = set()
    for i in range(1, n + 1):
        if i in done:
            continue
        scc = {j for j in reach_from(i, set()) if i in reach_from(j, set())}
        if i not in scc:
            continue
        done |= scc
        for c in scc:
            g[c - 1]["lr"] = True
        cands = []
        for c in sorted(scc):
            # removing c must break every cycle inside the SCC
            if not any(x in reach_from(x, {c}) for x in scc - {c}):
                cands.append(c)
        if not cands:
            return False
        g[min(cands, key=lambda x: f"r{x}") - 1]["leader"] = True
    return True


# ---------------------------------------------------------------------------------------------
# rendering
# ---------------------------------------------------------------------------------------------
HEADER_XONSH = '''@class TestParser
@header\'\'\'\\
from __future__ import annotations
import ast, itertools, sys
from typing import Any, Optional, Union, List, Tuple, NoReturn
from peg_parser.subheader import Del, Load, Parser, Store, Target, logger, memoize, memoize_left_rec
\'\'\'
@trailer \'\'
'''
HEADER_PEGEN = "@class TestParser\n"


def render_item(it, names) -> str:
    k = it["k"]
    if k == "tok":
        return TOK_GRAM[it["t"]]
    if k == "rule":
        return f"r{it['r']}"
    if k == "opt":
        return f"[{render_item(it['x'][0], names)}]"
    if k == "star":
        return f"{atom(it['x'][0], names)}*"
    if k == "plus":
        return f"{atom(it['x'][0], names)}+"
    if k == "gather":
        return f"{atom(it['s'][0], names)}.{atom(it['x'][0], names)}+"
    if k == "group":
        # a group is a scope of its own: its items are named from a fresh counter (prefix by nesting depth), so two groups with
        # the same structure have the same text - which is what lets the generators share one helper rule between them
        inner = [0, names[1] + 1] if len(names) > 1 else [0, 1]
        return "(" + " | ".join(render_alt(a, inner) for a in it["alts"]) + ")"
    if k == "and":
        return f"&{atom(it['x'][0], names)}"
    if k == "not":
        return f"!{atom(it['x'][0], names)}"
    if k == "cut":
        return "~"
    if k == "forced":
        return f"&&{atom(it['x'][0], names)}"
    raise ValueError(k)


def atom(it, names) -> str:
    s = render_item(it, names)
    return s if it["k"] in ("tok", "rule", "group") else f"({s})"


def render_alt(a, names) -> str:
    if a["tag"] == "@default":
        return " ".join(render_item(it, names) for it in a["items"])
    parts, vs = [], []
    for it in a["items"]:
        if it["k"] in ("and", "not", "cut", "forced"):
            parts.append(render_item(it, names))
        else:
            names[0] += 1
            v = f"{'vghijklm'[names[1] if len(names) > 1 else 0]}{names[0]}"
            vs.append(v)
            parts.append(f"{v}={render_item(it, names)}")
    return " ".join(parts) + " { (" + ", ".join([repr(a["tag"])] + vs) + ",) }"


def render(g, header: str) -> str:
    out = [header]
    if header == HEADER_PEGEN:
        out.append("start: r1")
    for i, r in enumerate(g, 1):
        names = [0, 0]
        out.append(f"r{i}{' (memo)' if r['memo'] else ''}:")
        for a in r["alts"]:
            out.append("    | " + render_alt(a, names))
    return "\n".join(out) + "\n"


def strip(g):
    """the data Peg.tla consumes"""
    def item(it):
        return {"k": it["k"], "t": it["t"], "r": it["r"], "x": [item(x) for x in it["x"]], "s": [item(x) for x in it["s"]],
                "alts": [{"items": [item(y) for y in a["items"]], "tag": a["tag"]} for a in it["alts"]]}

    rules = [{"memo": r["memo"], "leader": r["leader"], "lr": r.get("lr", False), "alts": [{"items": [item(y) for y in a["items"]], "tag": a["tag"]} for a in r["alts"]]} for r in g]
    return {"rules": rules, "names": {"n", "k"} if uses_kw(g) else {"n", "k", "kk"}}


def uses_kw(g) -> bool:
    def has(it):
        return (it["k"] == "tok" and it["t"] == "kk") or any(has(x) for x in it["x"] + it["s"]) or any(has(y) for a in it["alts"] for y in a["items"])

    return any(has(it) for r in g for a in r["alts"] for it in a["items"])


def single_item_action_group(g) -> bool:
    """a group with one alternative holding one item: the generator inlines it and drops its action (known finding)"""
    def has(it):
        if it["k"] == "group" and len(it["alts"]) == 1 and len(it["alts"][0]["items"]) == 1:
            return True
        return any(has(x) for x in it["x"] + it["s"]) or any(has(y) for a in it["alts"] for y in a["items"])

    return any(has(it) for r in g for a in r["alts"] for it in a["items"])


def opt_of_lookahead(g) -> bool:
    def has(it):
        if it["k"] == "opt" and it["x"][0]["k"] in ("and", "not", "cut", "forced"):
            return True
        return any(has(x) for x in it["x"] + it["s"]) or any(has(y) for a in it["alts"] for y in a["items"])

    return any(has(it) for r in g for a in r["alts"] for it in a["items"])


# ---------------------------------------------------------------------------------------------
# the family
# ---------------------------------------------------------------------------------------------
def fixed() -> list:
    n, one, plus, comma, k = T("n"), T("1"), T("+"), T(","), T("kk")
    G = []
    G.append([Rl(A("a", n), A("b", one))])
    G.append([Rl(A("a", n, plus, n), A("b", n))])                                # ordered choice, backtracking
    G.append([Rl(A("a", n, Opt(plus), one))])
    G.append([Rl(A("a", Star(n), one))])
    G.append([Rl(A("a", Plus(n), Opt(one)))])
    G.append([Rl(A("a", Gather(comma, n)))])
    G.append([Rl(A("a", Gather(comma, n), Opt(comma), one))])                    # separator given back
    G.append([Rl(A("a", And(n), R(2)), A("b", one)), Rl(A("c", n, Opt(n)))])
    G.append([Rl(A("a", Not(k), n), A("b", k, n))])
    G.append([Rl(A("a", n, CUT, plus, n), A("b", n, one))])                      # cut commits
    G.append([Rl(A("a", n, Forced(plus), n), A("b", n))])                        # forced token raises
    G.append([Rl(A("a", R(1), plus, n), A("b", n))])                             # direct left recursion
    G.append([Rl(A("a", R(1), plus, R(2)), A("b", R(2))), Rl(A("c", R(2), comma, n), A("d", n), memo=False)])  # two leaders
    G.append([Rl(A("a", R(2), plus), A("b", n)), Rl(A("c", R(1), one), A("d", R(1)))])       # indirect left recursion
    G.append([Rl(A("a", R(2), plus), A("b", n)), Rl(A("c", R(1), one), A("d", R(1)), memo=True)])  # (memo) on a non-leader in the cycle
    G.append([Rl(A("a", Group(A("g", n, plus), A("h", one)), n))])
    G.append([Rl(A("a", Group(A("g", n), A("h", one)), Group(A("g", n), A("h", one))))])      # same group twice: shared helper
    G.append([Rl(A("a", Group(A("g", n), A("h", one)), Group(A("G", n), A("h", one))))])      # same structure, different actions
    G.append([Rl(A("a", Star(Group(A("g", n, plus))), n))])
    G.append([Rl(A("a", Plus(Group(A("g", n), A("h", one))), k))])
    G.append([Rl(A("a", Gather(plus, Group(A("g", n, Opt(one))))))])
    G.append([Rl(A("a", Opt(Group(A("g", n, plus))), R(2)), memo=True), Rl(A("b", n), A("c", one, R(1)), memo=True)])
    G.append([Rl(A("a", Not(Group(A("g", n, plus))), n, Opt(one)), A("b", n, plus, n))])
    G.append([Rl(A("a", And(Group(A("g", n), A("h", one))), R(2), R(2)), A("b", k)), Rl(A("c", n), A("d", one), memo=True)])
    G.append([Rl(A("a", n, Group(A("g", CUT, plus, n), A("h", one))), A("b", n, one))])        # cut scoped to the group
    G.append([Rl(A("a", Star(Group(A("g", n, CUT, plus), A("h", n))), one))])
    G.append([Rl(A("a", R(1), Group(A("g", plus), A("h", comma)), R(2)), A("b", R(2))), Rl(A("c", n), A("d", one), A("e", k, R(1), k))])
    G.append([Rl(A("a", R(2), R(3)), A("b", R(2))), Rl(A("c", n, plus), A("d", n), memo=True), Rl(A("e", one), A("f", R(2)))])
    G.append([Rl(A("a", Forced(Group(A("g", n), A("h", one))), plus), A("b", k))])
    G.append([Rl(A("a", Opt(n), Opt(one), plus))])
    G.append([Rl(A("a", Star(n), Star(one), k))])
    G.append([Rl(A("a", Gather(comma, R(2)), k)), Rl(A("b", n, plus, R(2)), A("c", n))])
    G.append([Rl(A("a", R(1), n), A("b", R(1), one), A("c", k))])                              # left recursion, two growing alternatives
    G.append([Rl(A("a", R(1), plus, R(1)), A("b", n))])                                       # left and right recursion
    G.append([Rl(A("a", Not(n), Not(one), T("+")), A("b", And(n), n, And(one), one))])
    G.append([Rl(A("a", k, Opt(Group(A("g", n, CUT, one))), plus), A("b", k, n))])
    # default actions: the item itself / the list of items, like-named items must stay distinct
    D = "@default"
    G.append([Rl(A(D, n, n, n), A(D, one))])
    G.append([Rl(A(D, plus, comma, k), A(D, n, one, n, one))])
    G.append([Rl(A(D, R(2), R(2), R(2)), A(D, k)), Rl(A(D, n), A("x", one))])
    G.append([Rl(A(D, Star(n), one, Star(n)), A(D, Opt(plus), Opt(plus), comma))])
    G.append([Rl(A(D, R(1), plus, n), A(D, n))])
    G.append([Rl(A(D, Gather(comma, n), Gather(plus, n)), A("y", Plus(one), Plus(one), Plus(one)))])
    G.append([Rl(A("a", Not(k), n), A("b", k))])                                  # exactly one keyword: NAME must still match its substrings
    # helper rules are shared by structure: groups that differ only in a separator / a repetition kind / a lookahead sign / a token
    # (written so that a token string of length <= 3 tells the twins apart: the first alternative needs a keyword after its group)
    G.append([Rl(A("a", Group(A("g", Gather(comma, n), Opt(one))), k), A("b", Group(A("g", Gather(plus, n), Opt(one)))))])
    G.append([Rl(A("a", Group(A("g", Star(n), one)), k), A("b", Group(A("g", Plus(n), one))))])
    G.append([Rl(A("a", Group(A("g", And(n), Opt(n), one)), k), A("b", Group(A("g", Not(n), Opt(n), one))))])
    G.append([Rl(A("a", Group(A("g", Opt(n), one)), k), A("b", Group(A("g", Opt(one), one))))])
    G.append([Rl(A("a", Group(A("g", Gather(comma, n), Opt(one)), A("h", plus)), k), A("b", Group(A("g", Gather(plus, n), Opt(one)), A("h", plus))))])
    G.append([Rl(A("a", Group(A("g", Gather(comma, n), Opt(one))), k)), Rl(A("b", Group(A("g", Gather(plus, n), Opt(one)))))])   # twins in two rules
    G[-1][0]["alts"].append(A("c", R(2)))
    # rules whose alternatives are single items without actions (the xonsh generator compiles them to seq_alts)
    G.append([Rl(A(D, Plus(n)), A(D, one))])
    G.append([Rl(A(D, Plus(n)), A(D, Gather(comma, one)), A(D, plus))])
    G.append([Rl(A(D, R(2)), A(D, one)), Rl(A(D, Plus(n)), A(D, k))])
    G.append([Rl(A("a", Group(A(D, Plus(n)), A(D, one)), plus))])
    G.append([Rl(A(D, Star(n)), A(D, one))])           # an alternative that succeeds with an empty result is still a success
    G.append([Rl(A(D, Opt(n)), A(D, one))])
    # a keyword that occurs only as a separator / only under a lookahead / only forced / only inside a group is still a keyword
    G.append([Rl(A("a", Gather(k, n), plus), A("b", n, one))])
    G.append([Rl(A("a", Not(k), n, plus), A("b", n, comma))])
    G.append([Rl(A("a", n, Opt(Group(A("g", k, n))), plus), A("b", n))])
    G.append([Rl(A("a", Star(Group(A("g", n, Opt(k)))), one))])
    return G


def rand_item(rng, nrules, depth):
    """items with the nesting the real grammar uses: wrappers (optional, repetitions, gather, lookaheads, forced) apply to a
    token, a rule or a group; wrappers of wrappers are outside the enumerated family"""
    toks = ["n", "1", "+", ",", "kk"]

    def base(d):
        c = rng.random()
        if d <= 0 or c < 0.55:
            return T(rng.choice(toks)) if rng.random() < 0.75 else R(rng.randrange(1, nrules + 1))
        return Group(*[A(f"g{rng.randrange(3)}", *[rand_item(rng, nrules, d - 1) for _ in range(rng.randrange(1, 3))]) for _ in range(rng.randrange(1, 3))])

    c = rng.random()
    if depth <= 0 or c < 0.4:
        return base(depth)
    kind = rng.choice(["opt", "star", "plus", "gather", "group", "and", "not", "forced", "cut"])
    if kind == "cut":
        return CUT
    if kind == "group":
        return base(max(depth, 1) if depth > 0 else 0) if depth > 0 else base(0)
    if kind == "gather":
        return Gather(T(rng.choice([",", "+"])), base(depth - 1))
    if kind == "forced":
        return Forced(T(rng.choice(["+", ","])))  # the notation supports forced (punctuation) string tokens only
    x = base(depth - 1)
    return {"opt": Opt, "star": Star, "plus": Plus, "and": And, "not": Not}[kind](x)


def rand_grammar(rng):
    nrules = rng.randrange(1, 4)
    g = []
    for i in range(nrules):
        alts = []
        for j in range(rng.randrange(1, 4)):
            items = [rand_item(rng, nrules, 2) for _ in range(rng.randrange(1, 4))]
            if rng.random() < 0.25:
                items[0] = R(rng.randrange(1, nrules + 1))  # left recursion candidates
            alts.append(A("@default" if rng.random() < 0.15 and not any(x["k"] in ("and", "not", "cut", "forced") for x in items) else f"a{i}{j}", *items))
        g.append(Rl(*alts, memo=rng.random() < 0.3))
    return g


def family(seed: int, nrandom: int) -> list:
    out = []
    for g in fixed():
        if wellformed(g) and set_leaders(g):
            out.append(g)
    rng = random.Random(seed)
    tries = 0
    while len(out) < len(fixed()) + nrandom and tries < nrandom * 60:
        tries += 1
        g = rand_grammar(rng)
        # cut as last item or directly repeated is pointless; cut inside lookahead is rejected by pegen
        if wellformed(g) and set_leaders(g) and not _bad_cut(g) and not opt_of_lookahead(g):
            out.append(g)
    return out


def _bad_cut(g) -> bool:
    def inside(it, ctx):
        if it["k"] == "cut" and ctx:
            return True
        for x in it["x"] + it["s"]:
            if inside(x, ctx or it["k"] in ("and", "not", "opt", "star", "plus", "gather", "forced")):
                return True
        for a in it["alts"]:
            for y in a["items"]:
                if inside(y, ctx and it["k"] != "group"):
                    return True
        return False

    return any(inside(it, False) for r in g for a in r["alts"] for it in a["items"])
