"""The abstraction function between Unicode text and the abstract alphabet of the specification.

alpha(ch) maps a character to its class; CLASSES[c] lists representatives (the first is the
canonical one).  Every ASCII character with a lexical role of its own is its own class, letters
that play a role in literals (string prefixes, exponent, radix, imaginary) are separate classes.
"""
import random

PUNCT = "'\"`\\#()[]{}!$?@&|<>=:.,;+-*/%^~"
CLASSES = {
    "a": ["a", "k", "Z", "q", "w"],
    "b": ["b", "B"], "f": ["f", "F"], "r": ["r", "R"], "u": ["u", "U"], "p": ["p", "P"],
    "e": ["e", "E"], "j": ["j", "J"], "x": ["x", "X"], "o": ["o", "O"], "g": ["g"],
    "_": ["_"],
    "0": ["0"], "1": ["1"], "7": ["7", "5", "2"], "9": ["9", "8"],
    "uc": ["é", "ñ", "中", "λ"],   # non-ASCII \w letter
    "ud": ["٣", "५"],                      # non-ASCII \w digit
    "sp": [" "], "tab": ["\t"], "ff": ["\f"], "nl": ["\n"], "cr": ["\r"],
    "ctrl": ["\x01", "\x7f", "\x1b"],
    "nul": ["\x00"],
    "sym": ["¿", "€", "→"],           # not \w, not space
    "usp": [" ", " "],                     # unicode space
    "ls": ["\x0b", "\x1c", "\x85", " "],        # characters str.splitlines() treats as breaks
    "bom": ["﻿"],
}
NAMED = {"'": "sq", '"': "dq", "`": "bt", "\\": "bsl"}
for _c in PUNCT:
    CLASSES[NAMED.get(_c, _c)] = [_c]

_REV = {}
for _k, _v in CLASSES.items():
    for _ch in _v:
        _REV.setdefault(_ch, _k)


def alpha(ch: str) -> str:
    if ch in _REV:
        return _REV[ch]
    if ch.isdigit():
        return "9" if ch.isascii() else "ud"
    if ch.isalpha() or ch == "_":
        return "a" if ch.isascii() else "uc"
    if ch.isspace():
        return "usp"
    if ord(ch) < 32:
        return "ctrl"
    return "sym"


def concretise(abs_seq, rng: random.Random | None = None, variant: int = 0) -> str:
    """variant 0 = canonical representatives; otherwise seeded choice per position."""
    out = []
    for c in abs_seq:
        reps = CLASSES[c]
        out.append(reps[0] if (variant == 0 or rng is None) else rng.choice(reps))
    return "".join(out)


SUB = {
    "num": ["0", "1", "7", "9", "_", ".", "e", "j", "x", "b", "o", "a", "+", "-", "sp"],
    "op": list("!$?@&|<>=:.()[]{}*/-+%^~,;") + ["a", "sp"],
    "str": ["sq", "dq", "bsl", "a", "f", "r", "b", "p", "{", "}", "nl", "sp", ":", "!"],
    "indent": ["a", ":", "sp", "tab", "ff", "nl", "cr", "#", "bsl", "("],
    "xonsh": ["$", "!", "?", "@", "(", ")", "[", "]", "{", "}", "bt", "a", "g", "p", "sp", "&", "|", ">", "nl"],
    "all": sorted(CLASSES),
    "py": ["a", "1", "sp", "nl", "(", ")", "[", "]", ":", ",", ".", "=", "+", "*", "sq", "#", "bsl", "tab"],
}
