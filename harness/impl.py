"""Operations executed inside worker processes, against the repository under test (public API
only), and the projection functions from real values to the specification's abstract state.
"""
from __future__ import annotations

import ast
import io
import os
import sys
import tokenize as pytokenize

REPO = os.environ.get("VERIF_REPO", "/repo")


class HangTimeout(BaseException):
    pass


LIMIT = [4.0]  # per-observation soft limit in seconds, set by the worker for every message


def arm() -> None:
    """(Re)arm the interval timer: every observation of the code under test gets its own budget,
    so one hang inside an operation cannot leave the following observation unguarded."""
    import signal

    signal.setitimer(signal.ITIMER_REAL, LIMIT[0])


_cache: dict = {}


def P():
    """The parser class under test (shipped module)."""
    if "P" not in _cache:
        from peg_parser.parser import XonshParser

        _cache["P"] = XonshParser
    return _cache["P"]


def T():
    if "T" not in _cache:
        import peg_parser.tokenize as t

        _cache["T"] = t
    return _cache["T"]


# ---------------------------------------------------------------------------------------------
# projections
# ---------------------------------------------------------------------------------------------
def exc_record(e: BaseException) -> dict:
    r = {"cls": type(e).__name__, "mro": [c.__name__ for c in type(e).__mro__], "msg": str(getattr(e, "msg", None) or e)[:300]}
    if isinstance(e, SyntaxError):
        for a in ("filename", "lineno", "offset", "end_lineno", "end_offset", "text"):
            r[a] = getattr(e, a, None)
        r["msg"] = e.msg if isinstance(e.msg, str) else repr(e.msg)
        r["nargs"] = len(e.args)
    r["sanctioned"] = isinstance(e, SyntaxError) or type(e).__name__ == "TokenError"
    return r


def tok_rows(toks) -> list:
    return [[t.type.name, t.string, t.start[0], t.start[1], t.end[0], t.end[1]] for t in toks]


def pytok_rows(toks) -> list:
    return [[pytokenize.tok_name[t.type], t.string, t.start[0], t.start[1], t.end[0], t.end[1]] for t in toks]


def _scalar(v) -> str:
    if isinstance(v, float):
        return "float:" + (v.hex() if v == v else "nan")
    if isinstance(v, complex):
        return "complex:" + v.real.hex() + "," + v.imag.hex()
    return type(v).__name__ + ":" + repr(v)


_LOC = ("lineno", "col_offset", "end_lineno", "end_col_offset")


def flatten(tree) -> list:
    """Pre-order rows [depth, type, field, index, l, c, el, ec, scalars, shape].
    scalars: 'name=type:repr;...' of the non-node fields; shape: 'field:kind,...' where kind is
    node / list<n> / none / scalar / missing / BAD<type> (a non-list where the field was given a
    list of nodes, or a list element that is no node)."""
    rows = []

    def walk(node, depth, field, idx):
        loc = [getattr(node, a, None) for a in _LOC]
        loc = [x if isinstance(x, int) and not isinstance(x, bool) else (-1 if x is None else -2) for x in loc]
        scal, shape, kids = [], [], []
        for f in node._fields:
            if not hasattr(node, f):
                shape.append(f + ":missing")
                continue
            v = getattr(node, f)
            if isinstance(v, ast.AST):
                shape.append(f + ":node")
                kids.append((v, f, 0))
            elif isinstance(v, list):
                kinds = set()
                for j, x in enumerate(v):
                    if isinstance(x, ast.AST):
                        kids.append((x, f, j))
                        kinds.add("n")
                    elif x is None:
                        kinds.add("N")  # e.g. Dict.keys / kw_defaults holes
                        scal.append(f"{f}[{j}]=None")
                    else:
                        kinds.add("s")
                        scal.append(f"{f}[{j}]={_scalar(x)}")
                shape.append(f"{f}:list{len(v)}" + "".join(sorted(kinds)))
            elif v is None:
                shape.append(f + ":none")
            elif isinstance(v, (tuple, dict, set)):
                shape.append(f + ":BAD" + type(v).__name__)
            else:
                shape.append(f + ":scalar")
                scal.append(f"{f}={_scalar(v)}")
        rows.append([depth, type(node).__name__, field, idx, *loc, ";".join(scal), ",".join(shape)])
        for k, f, j in kids:
            walk(k, depth + 1, f, j)

    walk(tree, 0, "", 0)
    return rows


def rows_nopos(rows) -> list:
    return [[r[0], r[1], r[2], r[3], r[8]] for r in rows]


def digest_rows(rows) -> list:
    import hashlib

    return [hashlib.sha1(repr(r).encode()).hexdigest()[:10] for r in rows]


# ---------------------------------------------------------------------------------------------
# basic observations
# ---------------------------------------------------------------------------------------------
def obs_tok(src: str) -> dict:
    arm()
    try:
        toks = list(T().generate_tokens(src))
        return {"toks": tok_rows(toks), "exc": None}
    except HangTimeout:
        return {"toks": None, "exc": None, "hang": True}
    except BaseException as e:  # noqa: BLE001
        return {"toks": None, "exc": exc_record(e)}


def obs_pytok(src: str) -> dict:
    arm()
    try:
        toks = list(pytokenize.generate_tokens(io.StringIO(src).readline))
        return {"toks": pytok_rows(toks), "exc": None}
    except HangTimeout:
        raise
    except BaseException as e:  # noqa: BLE001
        return {"toks": None, "exc": exc_record(e)}


def obs_parse(src: str, mode: str = "exec", py_version=None, verbose: bool = False, want=("rows",)) -> dict:
    arm()
    try:
        kw = {}
        if py_version is not None:
            kw["py_version"] = tuple(py_version)
        if verbose:
            kw["verbose"] = True
        tree = P().parse_string(src, mode=mode, **kw)
    except HangTimeout:
        return {"ok": False, "hang": True}
    except BaseException as e:  # noqa: BLE001
        return {"ok": False, "exc": exc_record(e)}
    r = {"ok": True, "type": type(tree).__name__}
    if not isinstance(tree, ast.AST):
        return r
    if "rows" in want:
        r["rows"] = flatten(tree)
    if "dump" in want:
        try:
            r["dump"] = ast.dump(tree, include_attributes=True)
        except BaseException as e:  # noqa: BLE001
            r["dump_exc"] = exc_record(e)
    if "compile" in want:
        r["compile"] = obs_compile(tree, mode)
    return r


def obs_pyparse(src: str, mode: str = "exec", want=("rows",), feature_version=None) -> dict:
    arm()
    try:
        tree = ast.parse(src, mode=mode, type_comments=False)
    except HangTimeout:
        raise
    except (SyntaxError, ValueError, RecursionError, MemoryError) as e:
        return {"ok": False, "exc": exc_record(e)}
    r = {"ok": True, "type": type(tree).__name__}
    if "rows" in want:
        r["rows"] = flatten(tree)
    if "dump" in want:
        r["dump"] = ast.dump(tree, include_attributes=True)
    if "compile" in want:
        r["compile"] = obs_compile(tree, mode)
    return r


def obs_compile(tree, mode: str) -> dict:
    arm()
    try:
        compile(tree, "<verif>", "eval" if mode == "eval" else "exec")
        return {"ok": True}
    except HangTimeout:
        raise
    except BaseException as e:  # noqa: BLE001
        return {"ok": False, "exc": exc_record(e)}


# ---------------------------------------------------------------------------------------------
# operations (one per message from the pool)
# ---------------------------------------------------------------------------------------------
def op_tok(case):
    return obs_tok(case["src"])


def op_tokpair(case):
    """implementation tokens and CPython tokens for the same text"""
    return {"impl": obs_tok(case["src"]), "py": obs_pytok(case["src"])}


def op_parse(case):
    return obs_parse(case["src"], case.get("mode", "exec"), case.get("py_version"), case.get("verbose", False),
                     want=tuple(case.get("want", ("rows",))))


def op_parsepair(case):
    """implementation parse and CPython parse of the same text"""
    want = tuple(case.get("want", ("rows",)))
    mode = case.get("mode", "exec")
    py = obs_pyparse(case["src"], mode, want=want)
    im = obs_parse(case["src"], mode, want=want)
    return {"impl": im, "py": py}


def op_total(case):
    """C03: tokenizer exhaustion + parse outcome class"""
    src = case["src"]
    r = {"tok": obs_tok(src)}
    if r["tok"].get("toks") is not None:
        r["tok"]["n"] = len(r["tok"]["toks"])
        if not case.get("keep_toks"):
            r["tok"]["toks"] = _progress_view(r["tok"]["toks"])
    for mode in case.get("modes", ("exec",)):
        o = obs_parse(src, mode, want=())
        r["parse_" + mode] = o
    return r


def _progress_view(rows):
    # positions only: enough for the progress law
    return [[t[0], len(t[1]), t[2], t[3], t[4], t[5]] for t in rows]


# ---------------------------------------------------------------------------------------------
# file entry point
# ---------------------------------------------------------------------------------------------
_tmp = {}


def _tmpdir() -> str:
    if "d" not in _tmp:
        import atexit
        import shutil
        import tempfile

        _tmp["d"] = tempfile.mkdtemp(prefix="verif-")
        atexit.register(shutil.rmtree, _tmp["d"], True)
    return _tmp["d"]


def obs_parse_file(data, py_version=None, verbose=False, want=("rows",), name="mod.py") -> dict:
    """parse_file on a temporary file holding `data` (str -> written as UTF-8 without newline
    translation, or bytes)."""
    import pathlib

    p = pathlib.Path(_tmpdir()) / name
    if isinstance(data, str):
        data = data.encode("utf-8", "surrogatepass")
    p.write_bytes(data)
    arm()
    try:
        kw = {}
        if py_version is not None:
            kw["py_version"] = tuple(py_version)
        if verbose:
            kw["verbose"] = True
        tree = P().parse_file(p, **kw)
    except HangTimeout:
        return {"ok": False, "hang": True}
    except BaseException as e:  # noqa: BLE001
        return {"ok": False, "exc": exc_record(e)}
    r = {"ok": True, "type": type(tree).__name__}
    if not isinstance(tree, ast.AST):
        return r
    if "rows" in want:
        r["rows"] = flatten(tree)
    if "dump" in want:
        r["dump"] = ast.dump(tree, include_attributes=True)
    return r


def op_total_file(case):
    r = op_total(case)
    r["file_exec"] = obs_parse_file(case["src"], want=())
    return r
