"""Operations executed inside worker processes, against the repository under test (public API
only), and the projection functions from real values to the specification's abstract state.
"""
from __future__ import annotations

import ast
import io
import os
import sys
import tokenize as pytokenize

REPO = os.environ.get("VERIF_REPO", "/repo")


class HangTimeout(BaseException):
    pass


LIMIT = [4.0]  # per-observation soft limit in seconds, set by the worker for every message


def arm() -> None:
    """(Re)arm the interval timer: every observation of the code under test gets its own budget,
    so one hang inside an operation cannot leave the following observation unguarded."""
    import signal
    import threading

    if threading.current_thread() is threading.main_thread():
        signal.setitimer(signal.ITIMER_REAL, LIMIT[0])


_cache: dict = {}


def P():
    """The parser class under test (shipped module)."""
    if "P" not in _cache:
        from peg_parser.parser import XonshParser

        _cache["P"] = XonshParser
    return _cache["P"]


def T():
    if "T" not in _cache:
        import peg_parser.tokenize as t

        _cache["T"] = t
    return _cache["T"]


# ---------------------------------------------------------------------------------------------
# projections
# ---------------------------------------------------------------------------------------------
def exc_record(e: BaseException) -> dict:
    r = {"cls": type(e).__name__, "mro": [c.__name__ for c in type(e).__mro__], "msg": str(getattr(e, "msg", None) or e)[:300]}
    if isinstance(e, SyntaxError):
        for a in ("filename", "lineno", "offset", "end_lineno", "end_offset", "text"):
            r[a] = getattr(e, a, None)
        r["msg"] = e.msg if isinstance(e.msg, str) else repr(e.msg)
        r["nargs"] = len(e.args)
    r["sanctioned"] = isinstance(e, SyntaxError) or type(e).__name__ == "TokenError"
    return r


def tok_rows(toks) -> list:
    return [[t.type.name, t.string, t.start[0], t.start[1], t.end[0], t.end[1]] for t in toks]


def pytok_rows(toks) -> list:
    return [[pytokenize.tok_name[t.type], t.string, t.start[0], t.start[1], t.end[0], t.end[1]] for t in toks]


def _scalar(v) -> str:
    if isinstance(v, float):
        return "float:" + (v.hex() if v == v else "nan")
    if isinstance(v, complex):
        return "complex:" + v.real.hex() + "," + v.imag.hex()
    return type(v).__name__ + ":" + repr(v)


_LOC = ("lineno", "col_offset", "end_lineno", "end_col_offset")


def flatten(tree) -> list:
    """Pre-order rows [depth, type, field, index, l, c, el, ec, scalars, shape].
    scalars: 'name=type:repr;...' of the non-node fields; shape: 'field:kind,...' where kind is
    node / list<n> / none / scalar / missing / BAD<type> (a non-list where the field was given a
    list of nodes, or a list element that is no node)."""
    rows = []

    def walk(node, depth, field, idx):
        loc = [getattr(node, a, None) for a in _LOC]
        loc = [x if isinstance(x, int) and not isinstance(x, bool) else (-1 if x is None else -2) for x in loc]
        scal, shape, kids = [], [], []
        for f in node._fields:
            if not hasattr(node, f):
                shape.append(f + ":missing")
                continue
            v = getattr(node, f)
            if isinstance(v, ast.AST):
                shape.append(f + ":node")
                kids.append((v, f, 0))
            elif isinstance(v, list):
                kinds = set()
                for j, x in enumerate(v):
                    if isinstance(x, ast.AST):
                        kids.append((x, f, j))
                        kinds.add("n")
                    elif x is None:
                        kinds.add("N")  # e.g. Dict.keys / kw_defaults holes
                        scal.append(f"{f}[{j}]=None")
                    else:
                        kinds.add("s")
                        scal.append(f"{f}[{j}]={_scalar(x)}")
                shape.append(f"{f}:list{len(v)}" + "".join(sorted(kinds)))
            elif v is None:
                shape.append(f + ":none")
            elif isinstance(v, (tuple, dict, set)):
                shape.append(f + ":BAD" + type(v).__name__)
            else:
                shape.append(f + ":scalar")
                scal.append(f"{f}={_scalar(v)}")
        rows.append([depth, type(node).__name__, field, idx, *loc, ";".join(scal), ",".join(shape)])
        for k, f, j in kids:
            walk(k, depth + 1, f, j)

    walk(tree, 0, "", 0)
    return rows


def rows_nopos(rows) -> list:
    return [[r[0], r[1], r[2], r[3], r[8]] for r in rows]


def digest_rows(rows) -> list:
    import hashlib

    return [hashlib.sha1(repr(r).encode()).hexdigest()[:10] for r in rows]


# ---------------------------------------------------------------------------------------------
# basic observations
# ---------------------------------------------------------------------------------------------
def obs_tok(src: str) -> dict:
    arm()
    try:
        toks = list(T().generate_tokens(src))
        return {"toks": tok_rows(toks), "exc": None}
    except HangTimeout:
        return {"toks": None, "exc": None, "hang": True}
    except BaseException as e:  # noqa: BLE001
        return {"toks": None, "exc": exc_record(e)}


def obs_pytok(src: str) -> dict:
    arm()
    try:
        toks = list(pytokenize.generate_tokens(io.StringIO(src).readline))
        return {"toks": pytok_rows(toks), "exc": None}
    except HangTimeout:
        raise
    except BaseException as e:  # noqa: BLE001
        return {"toks": None, "exc": exc_record(e)}


def obs_parse(src: str, mode: str = "exec", py_version=None, verbose: bool = False, want=("rows",)) -> dict:
    arm()
    try:
        kw = {}
        if py_version is not None:
            kw["py_version"] = tuple(py_version)
        if verbose:
            kw["verbose"] = True
        tree = P().parse_string(src, mode=mode, **kw)
    except HangTimeout:
        return {"ok": False, "hang": True}
    except BaseException as e:  # noqa: BLE001
        return {"ok": False, "exc": exc_record(e)}
    r = {"ok": True, "type": type(tree).__name__}
    if not isinstance(tree, ast.AST):
        return r
    if "rows" in want:
        r["rows"] = flatten(tree)
    if "dump" in want:
        try:
            r["dump"] = ast.dump(tree, include_attributes=True)
        except BaseException as e:  # noqa: BLE001
            r["dump_exc"] = exc_record(e)
    if "compile" in want:
        r["compile"] = obs_compile(tree, mode)
    return r


def obs_pyparse(src: str, mode: str = "exec", want=("rows",), feature_version=None) -> dict:
    arm()
    try:
        tree = ast.parse(src, mode=mode, type_comments=False)
    except HangTimeout:
        raise
    except (SyntaxError, ValueError, RecursionError, MemoryError) as e:
        return {"ok": False, "exc": exc_record(e)}
    r = {"ok": True, "type": type(tree).__name__}
    if "rows" in want:
        r["rows"] = flatten(tree)
    if "dump" in want:
        r["dump"] = ast.dump(tree, include_attributes=True)
    if "compile" in want:
        r["compile"] = obs_compile(tree, mode)
    return r


def obs_compile(tree, mode: str) -> dict:
    arm()
    try:
        compile(tree, "<verif>", "eval" if mode == "eval" else "exec")
        return {"ok": True}
    except HangTimeout:
        raise
    except BaseException as e:  # noqa: BLE001
        return {"ok": False, "exc": exc_record(e)}


# ---------------------------------------------------------------------------------------------
# operations (one per message from the pool)
# ---------------------------------------------------------------------------------------------
def op_tok(case):
    return obs_tok(case["src"])


def op_tokpair(case):
    """implementation tokens and CPython tokens for the same text"""
    return {"impl": obs_tok(case["src"]), "py": obs_pytok(case["src"])}


def op_parse(case):
    return obs_parse(case["src"], case.get("mode", "exec"), case.get("py_version"), case.get("verbose", False),
                     want=tuple(case.get("want", ("rows",))))


def op_parsepair(case):
    """implementation parse and CPython parse of the same text"""
    want = tuple(case.get("want", ("rows",)))
    mode = case.get("mode", "exec")
    py = obs_pyparse(case["src"], mode, want=want)
    im = obs_parse(case["src"], mode, want=want)
    return {"impl": im, "py": py}


def op_total(case):
    """C03: tokenizer exhaustion + parse outcome class"""
    src = case["src"]
    r = {"tok": obs_tok(src)}
    if r["tok"].get("toks") is not None:
        r["tok"]["n"] = len(r["tok"]["toks"])
        if not case.get("keep_toks"):
            r["tok"]["toks"] = _progress_view(r["tok"]["toks"])
    for mode in case.get("modes", ("exec",)):
        o = obs_parse(src, mode, want=())
        r["parse_" + mode] = o
    return r


def _progress_view(rows):
    # positions only: enough for the progress law
    return [[t[0], len(t[1]), t[2], t[3], t[4], t[5]] for t in rows]


# ---------------------------------------------------------------------------------------------
# file entry point
# ---------------------------------------------------------------------------------------------
_tmp = {}


def _tmpdir() -> str:
    if "d" not in _tmp:
        import atexit
        import shutil
        import tempfile

        _tmp["d"] = tempfile.mkdtemp(prefix="verif-")
        atexit.register(shutil.rmtree, _tmp["d"], True)
    return _tmp["d"]


def obs_parse_file(data, py_version=None, verbose=False, want=("rows",), name="mod.py") -> dict:
    """parse_file on a temporary file holding `data` (str -> written as UTF-8 without newline
    translation, or bytes)."""
    import pathlib

    p = pathlib.Path(_tmpdir()) / name
    if isinstance(data, str):
        data = data.encode("utf-8", "surrogatepass")
    p.write_bytes(data)
    arm()
    try:
        kw = {}
        if py_version is not None:
            kw["py_version"] = tuple(py_version)
        if verbose:
            kw["verbose"] = True
        tree = P().parse_file(p, **kw)
    except HangTimeout:
        return {"ok": False, "hang": True}
    except BaseException as e:  # noqa: BLE001
        return {"ok": False, "exc": exc_record(e)}
    r = {"ok": True, "type": type(tree).__name__}
    if not isinstance(tree, ast.AST):
        return r
    if "rows" in want:
        r["rows"] = flatten(tree)
    if "dump" in want:
        r["dump"] = ast.dump(tree, include_attributes=True)
    return r


def op_total_file(case):
    r = op_total(case)
    r["file_exec"] = obs_parse_file(case["src"], want=())
    return r


# ---------------------------------------------------------------------------------------------
# grammar -> JSON (for gram2tla); uses the repository's own metagrammar parser
# ---------------------------------------------------------------------------------------------
def op_gramjson(case):
    """Parse a .gram file with the repository's pegen and return a flat description:
    {"rules": {name: {"alts": [[item...]...], "memo": bool, "left_recursive": bool, "leader": bool,
    "nullable": bool, "synthetic": bool}}, "order": [...]}, items = {"k","v","s"}; nested groups /
    optionals / repeats become synthetic rules g_<n>."""
    from pegen import grammar as G
    from pegen.build import build_parser
    from pegen.parser_generator import compute_left_recursives, compute_nullables

    path = case.get("path") or os.path.join(REPO, "tasks", "xonsh.gram")
    gram, _p, _t = build_parser(path)
    rules = dict(gram.rules)
    try:
        compute_nullables(rules)
        compute_left_recursives(rules)
    except Exception:  # noqa: BLE001
        pass
    out, order, counter, cache = {}, [], [0], {}

    def synth(rhs):
        key = repr(rhs)
        if key in cache:
            return cache[key]
        counter[0] += 1
        name = f"g_{counter[0]}"
        cache[key] = name
        out[name] = {"alts": None, "memo": False, "left_recursive": False, "leader": False, "nullable": False, "synthetic": True}
        order.append(name)
        out[name]["alts"] = [alt_items(a) for a in rhs.alts]
        return name

    def as_rule(node):
        """name of a rule deriving exactly `node`"""
        if isinstance(node, G.NameLeaf) and node.value in rules:
            return node.value
        if isinstance(node, G.Group):
            return synth(node.rhs)
        if isinstance(node, G.Rhs):
            return synth(node)
        return synth(G.Rhs([G.Alt([G.NamedItem(None, node)])]))

    def item(node):
        if isinstance(node, G.NamedItem):
            return item(node.item)
        if isinstance(node, G.NameLeaf):
            v = node.value
            if v in rules:
                return {"k": "rule", "v": v, "s": ""}
            return {"k": "tok", "v": v, "s": ""}
        if isinstance(node, G.StringLeaf):
            return {"k": "lit", "v": ast.literal_eval(node.value), "s": "soft" if node.value.startswith('"') else ""}
        if isinstance(node, G.Group):
            return {"k": "rule", "v": synth(node.rhs), "s": ""}
        if isinstance(node, G.Rhs):
            return {"k": "rule", "v": synth(node), "s": ""}
        if isinstance(node, G.Opt):
            return {"k": "opt", "v": as_rule(node.node), "s": ""}
        if isinstance(node, G.Gather):
            return {"k": "gather", "v": as_rule(node.node), "s": as_rule(node.separator)}
        if isinstance(node, G.Repeat0):
            return {"k": "star", "v": as_rule(node.node), "s": ""}
        if isinstance(node, G.Repeat1):
            return {"k": "plus", "v": as_rule(node.node), "s": ""}
        if isinstance(node, G.PositiveLookahead):
            return {"k": "pos", "v": as_rule(node.node), "s": ""}
        if isinstance(node, G.NegativeLookahead):
            return {"k": "neg", "v": as_rule(node.node), "s": ""}
        if isinstance(node, G.Forced):
            return {"k": "forced", "v": as_rule(node.node), "s": ""}
        if isinstance(node, G.Cut):
            return {"k": "cut", "v": "", "s": ""}
        raise TypeError(type(node))

    def alt_items(alt):
        return [item(it) for it in alt.items]

    for name, r in rules.items():
        out[name] = {"alts": [alt_items(a) for a in r.rhs.alts], "memo": bool(r.memo), "left_recursive": bool(r.left_recursive),
                     "leader": bool(r.leader), "nullable": bool(r.nullable), "synthetic": False,
                     "actions": [bool(a.action) for a in r.rhs.alts]}
        order.append(name)
    return {"rules": out, "order": order}


# ---------------------------------------------------------------------------------------------
# tree digests and pair comparison
# ---------------------------------------------------------------------------------------------
def _h(x) -> int:
    import zlib

    return zlib.crc32(repr(x).encode()) & 0xFFFFFF


def row_digests(rows) -> list:
    return [[_h((r[0], r[1], r[2], r[3], r[9])), _h(r[8]), _h((r[4], r[5], r[6], r[7]))] for r in rows]


def first_diff(a, b):
    for i in range(max(len(a), len(b))):
        ra = a[i] if i < len(a) else None
        rb = b[i] if i < len(b) else None
        if ra != rb:
            return {"index": i, "impl": ra, "ref": rb}
    return None


def byte_cols(rows, src: str):
    """implementation rows with character columns converted to UTF-8 byte columns (the
    explanation matcher of known finding K-C01-nonascii-columns)"""
    lines = src.split("\n")
    out = []
    for r in rows:
        r = list(r)
        for li, ci in ((4, 5), (6, 7)):
            l, c = r[li], r[ci]
            if isinstance(l, int) and isinstance(c, int) and 1 <= l <= len(lines) and c >= 0:
                r[ci] = len(lines[l - 1][:c].encode("utf-8"))
        out.append(r)
    return out


def op_c01(case):
    """CPython vs implementation on a Python source: accept/raise verdicts, tree digests."""
    src, mode = case["src"], case.get("mode", "exec")
    py = obs_pyparse(src, mode)
    r = {"py_ok": py["ok"]}
    if not py["ok"]:
        r["py_exc"] = py["exc"]
    if case.get("entry") == "file":     # the same text through parse_file (written as UTF-8, no newline translation)
        im = obs_parse_file(src, want=("rows",))
    else:
        im = obs_parse(src, mode, want=("rows", "compile") if case.get("compile") else ("rows",))
    r["impl_ok"] = bool(im.get("ok"))
    r["impl_hang"] = bool(im.get("hang"))
    r["impl_exc"] = im.get("exc")
    r["impl_type"] = im.get("type")
    if case.get("compile"):
        r["compile"] = im.get("compile")
    if py["ok"] and im.get("ok") and "rows" in im:
        r["a"] = row_digests(im["rows"])
        r["b"] = row_digests(py["rows"])
        if r["a"] != r["b"]:
            r["diff"] = first_diff(im["rows"], py["rows"])
            if not src.isascii():
                r["eq_after_bytecols"] = row_digests(byte_cols(im["rows"], src)) == r["b"]
        if case.get("want_rows"):
            r["rows"] = im["rows"]
    elif im.get("ok") and "rows" in im and case.get("want_rows"):
        r["rows"] = im["rows"]
    return r


# ---------------------------------------------------------------------------------------------
# C04: shape rows + compile oracle
# ---------------------------------------------------------------------------------------------
def shape_rows(tree) -> list:
    """rows for AstShape.tla: [ty, pty, fld, ctx, pctx, l, c, el, ec, f]"""
    rows = []

    def ctxname(n):
        c = getattr(n, "ctx", None)
        return type(c).__name__ if isinstance(c, ast.AST) else ("" if c is None else "BAD")

    def walk(node, pty, fld, pctx):
        loc = [getattr(node, a, None) for a in _LOC]
        loc = [x if isinstance(x, int) and not isinstance(x, bool) and x >= 0 else -1 for x in loc]
        f, kids = [], []
        for name in node._fields:
            if not hasattr(node, name):
                f.append([name, "missing", []])
                continue
            v = getattr(node, name)
            if isinstance(v, ast.AST):
                f.append([name, "node", []])
                kids.append((v, name))
            elif isinstance(v, list):
                kinds = set()
                for x in v:
                    if isinstance(x, ast.AST):
                        kinds.add("n")
                        kids.append((x, name))
                    elif x is None:
                        kinds.add("N")
                    elif isinstance(x, (list, tuple, dict, set)):
                        kinds.add("B")
                    else:
                        kinds.add("s")
                f.append([name, "list", sorted(kinds)])
            elif v is None:
                f.append([name, "none", []])
            elif isinstance(v, (tuple, dict, set)):
                f.append([name, "bad", []])
            else:
                f.append([name, "scalar", []])
        rows.append({"ty": type(node).__name__, "pty": pty, "fld": fld, "ctx": ctxname(node) if hasattr(node, "ctx") else "",
                     "pctx": pctx, "l": loc[0], "c": loc[1], "el": loc[2], "ec": loc[3], "f": f})
        me = ctxname(node) if hasattr(node, "ctx") else ""
        for kid, name in kids:
            if type(kid).__name__ in ("Load", "Store", "Del"):
                continue
            walk(kid, type(node).__name__, name, me)

    walk(tree, "", "", "")
    return rows


def op_c04(case):
    """parse (any language), shape rows, compile oracle with the written-out-Python fallback"""
    src, mode = case["src"], case.get("mode", "exec")
    arm()
    try:
        tree = P().parse_string(src, mode=mode)
    except HangTimeout:
        return {"ok": False, "hang": True}
    except BaseException as e:  # noqa: BLE001
        return {"ok": False, "exc": exc_record(e)}
    if not isinstance(tree, ast.AST):
        return {"ok": False, "none": True}
    r = {"ok": True, "rows": shape_rows(tree), "ll": [len(x.encode("utf-8", "surrogatepass")) for x in src.split("\n")]}
    comp = obs_compile(tree, mode)
    r["compile"] = "ok"
    if not comp["ok"]:
        cls = comp["exc"]["cls"]
        r["compile_exc"] = comp["exc"]
        if "SyntaxError" in comp["exc"]["mro"]:
            # semantic rejection: allowed only if the written-out Python is rejected too
            try:
                text = ast.unparse(tree)
                ref = obs_compile(ast.parse(text, mode="eval" if mode == "eval" else "exec"), mode)
                r["compile"] = "semantic_both" if not ref["ok"] else "semantic_only_here"
                r["written_out"] = text[:300]
            except HangTimeout:
                raise
            except BaseException as e:  # noqa: BLE001
                r["compile"] = "unparse_failed"
                r["unparse_exc"] = exc_record(e)
        else:
            r["compile"] = "malformed:" + cls
    return r


def op_c05(case):
    """xonsh program vs written-out translation (compared without positions) + construct span"""
    src, ref, mode = case["src"], case["ref"], case["mode"]
    py = obs_pyparse(ref, mode)
    im = obs_parse(src, mode)
    r = {"py_ok": py["ok"], "py_exc": py.get("exc"), "impl_ok": bool(im.get("ok")), "impl_exc": im.get("exc"), "impl_hang": bool(im.get("hang"))}
    if py["ok"] and im.get("ok"):
        r["a"] = row_digests(im["rows"])
        r["b"] = row_digests(py["rows"])
        if [x[:2] for x in r["a"]] != [x[:2] for x in r["b"]]:
            r["diff"] = first_diff(rows_nopos(im["rows"]), rows_nopos(py["rows"]))
        r["spans"] = sorted({(x[4], x[5], x[6], x[7]) for x in im["rows"] if x[4] >= 0})
        if case.get("want_shape"):
            tree = P().parse_string(src, mode=mode)
            r["rows"] = shape_rows(tree)
    return r


# ---------------------------------------------------------------------------------------------
# C06: projection of a subprocess Call onto word descriptors
# ---------------------------------------------------------------------------------------------
def _xattr(node):
    """'__xonsh__.name' -> name, else None"""
    if isinstance(node, ast.Attribute) and isinstance(node.value, ast.Name) and node.value.id == "__xonsh__":
        return node.attr
    return None


def proc_pieces(node) -> list:
    if isinstance(node, ast.Constant) and isinstance(node.value, str):
        return ["w:" + node.value]
    if isinstance(node, ast.Subscript) and _xattr(node.value) == "env":
        if isinstance(node.slice, ast.Constant):
            return ["e:" + str(node.slice.value)]
        return ["e:<expr>"]
    if isinstance(node, ast.Starred) and isinstance(node.value, ast.Call):
        f = _xattr(node.value.func)
        if f == "list_of_strs_or_callables":
            return ["p"]
        if f == "subproc_captured_inject":
            return ["i"]
    if isinstance(node, ast.Call):
        f = _xattr(node.func)
        if f and f.startswith("subproc_"):
            return ["s:" + f]
        if f:
            return ["x:" + f]
    if isinstance(node, ast.BinOp) and isinstance(node.op, ast.Add):
        if isinstance(node.left, ast.Starred) or isinstance(node.right, ast.Starred):
            return ["?starred_operand_of_+"]   # a starred part is an element of the argument's tuple, never an operand (no such expression exists)
        return proc_pieces(node.left) + proc_pieces(node.right)
    if isinstance(node, ast.Tuple):
        out = []
        for e in node.elts:
            out += proc_pieces(e)
        return out
    return ["?" + type(node).__name__]


def _merge_words(ps: list) -> list:
    out = []
    for p in ps:
        if out and out[-1].startswith("w:") and p.startswith("w:"):
            out[-1] += p[2:]
        else:
            out.append(p)
    return out


def op_c06(case):
    src = case["src"]
    im = obs_parse(src, "eval", want=())
    r = {"impl_ok": bool(im.get("ok")), "impl_exc": im.get("exc"), "impl_hang": bool(im.get("hang"))}
    if not r["impl_ok"]:
        return r
    tree = P().parse_string(src, mode="eval")
    call = tree.body
    r["is_call"] = isinstance(call, ast.Call)
    if r["is_call"]:
        r["func"] = _xattr(call.func) or ast.dump(call.func)
        r["args"] = [_merge_words(proc_pieces(a)) for a in call.args]
        r["keywords"] = len(call.keywords)
    return r


# ---------------------------------------------------------------------------------------------
# C07: captured macro texts
# ---------------------------------------------------------------------------------------------
def _nopos_dump(node) -> str:
    return ast.dump(node, include_attributes=False)


def _follower_ok(tree, follower: str):
    import textwrap

    if not follower.strip():
        return True
    try:
        f = P().parse_string(textwrap.dedent(follower), mode="exec")
    except BaseException:  # noqa: BLE001
        return None
    want = [_nopos_dump(s) for s in f.body]
    for node in ast.walk(tree):
        for fld in ("body", "orelse", "finalbody"):
            lst = getattr(node, fld, None)
            if isinstance(lst, list) and len(lst) >= len(want) and all(isinstance(x, ast.stmt) for x in lst):
                if [_nopos_dump(s) for s in lst[-len(want):]] == want:
                    return True
    return False


def op_c07(case):
    src, kind = case["src"], case["kind"]
    arm()
    try:
        tree = P().parse_string(src, mode="exec")
    except HangTimeout:
        return {"ok": False, "hang": True}
    except BaseException as e:  # noqa: BLE001
        return {"ok": False, "exc": exc_record(e)}
    got, func = None, ""
    for node in ast.walk(tree):
        if not isinstance(node, ast.Call):
            continue
        f = _xattr(node.func)
        if kind == "call" and f == "call_macro" and got is None:
            func = f
            t = node.args[1] if len(node.args) > 1 else None
            got = [e.value if isinstance(e, ast.Constant) else "?" + type(e).__name__ for e in t.elts] if isinstance(t, ast.Tuple) else ["?notuple"]
        elif kind in ("with", "with1") and f == "enter_macro" and got is None:
            func = f
            b = node.args[1] if len(node.args) > 1 else None
            got = [b.value if isinstance(b, ast.Constant) else "?" + type(b).__name__]
        elif kind == "proc" and f and f.startswith("subproc_") and got is None:
            func = "subproc"
            got = [a.value if isinstance(a, ast.Constant) else "?" + type(a).__name__ for a in node.args]
    fo = _follower_ok(tree, case.get("follower", ""))
    return {"ok": True, "func": func, "got": got if got is not None else [], "found": got is not None,
            "after": "ok" if fo else ("follower_unparsable_alone" if fo is None else "differs")}


# ---------------------------------------------------------------------------------------------
# C14: composition law
# ---------------------------------------------------------------------------------------------
_alone: dict = {}


def _body_rows(src: str, entry: str = "string", shift: int = 0):
    """rows of the statements of parse_string(src).body (depth-normalised), or the exception; entry="file": through parse_file;
    shift: the caller line-shifts the tree it was given, in place, as any client of the ast module would"""
    try:
        arm()
        if entry == "file":
            import pathlib

            path = os.path.join(_tmpdir(), "seq.xsh")
            with open(path, "w", encoding="utf-8", newline="") as fh:
                fh.write(src)
            tree = P().parse_file(pathlib.Path(path))
        else:
            tree = P().parse_string(src, mode="exec")
    except HangTimeout:
        return {"hang": True}
    except BaseException as e:  # noqa: BLE001
        return {"exc": exc_record(e)}
    if shift:
        for st in tree.body:
            ast.increment_lineno(st, shift)
    rows = []
    for i, st in enumerate(tree.body):
        for r in flatten(st):
            r[0] += 1
            if r[0] == 1:
                r[2], r[3] = "body", 0
            rows.append(r)
    return {"rows": rows, "n": len(tree.body)}


def _shift(rows, dl):
    out = []
    for r in rows:
        r = list(r)
        if r[4] >= 0:
            r[4] += dl
        if r[6] >= 0:
            r[6] += dl
        out.append(r)
    return out


def op_c14(case):
    parts = case["parts"]
    entry = case.get("entry", "string")
    whole = _body_rows("".join(parts), entry)
    exp, dl, alone_exc = [], 0, None
    for p in parts:
        # every part is parsed anew and the returned tree shifted in place: a parser that hands out the same tree twice
        # (or keeps it) shows here as soon as a part is used a second time
        a = _body_rows(p, entry, dl)
        if "rows" not in a:
            alone_exc = {"part": p, "outcome": a}
            break
        exp += a["rows"]
        dl += p.count("\n")
    r = {"alone_ok": alone_exc is None, "alone": alone_exc, "whole_ok": "rows" in whole, "whole": None if "rows" in whole else whole}
    if r["alone_ok"] and r["whole_ok"]:
        r["a"] = row_digests(whole["rows"])
        r["b"] = row_digests(exp)
        if r["a"] != r["b"]:
            r["diff"] = first_diff(whole["rows"], exp)
    return r


# ---------------------------------------------------------------------------------------------
# C09 / C10: token streams vs CPython
# ---------------------------------------------------------------------------------------------
_XDIGRAPHS = ("||", "&&", "@(", ">&", "??", "!(", "![", "@$(")
_XPAIRS = {("|", "|"), ("&", "&"), ("@", "("), (">", "&"), ("?", "?"), ("!", "("), ("!", "[")}


def py_domain(pytoks) -> str:
    """'' if the CPython token stream lies in the C09 domain, else the reason it does not"""
    prev = None
    run = ""
    for t in pytoks:
        ty, s = t[0], t[1]
        if ty == "ERRORTOKEN":
            return "errortoken"
        if ty in ("OP", "ERRORTOKEN") and (set(s) & set("$?`")):
            return "xonsh_char"
        if ty == "OP" and s == "<>":
            return "barry_as_flufl"
        if ty == "NUMBER":
            try:
                ast.literal_eval(s)
            except (SyntaxError, ValueError):
                return "invalid_number_literal"  # the tokenize module is more lenient than the language (09, 0_7, 1__0)
        if ty == "OP" and s == "!":
            return "bang"
        if prev is not None and prev[0] == "OP" and ty == "OP" and (prev[4], prev[5]) == (t[2], t[3]):
            run = run + s
            if any(d in run for d in _XDIGRAPHS):
                return "xonsh_digraph"
        else:
            run = s if ty == "OP" else ""
        if prev is not None and prev[0] == "NAME" and ty in ("STRING", "FSTRING_START") and (prev[4], prev[5]) == (t[2], t[3]) \
                and set(prev[1].lower()) <= set("prfbu") and "p" in prev[1].lower():
            return "p_string"
        prev = t
    return ""


def reduce_tokens(rows, impl: bool):
    out = []
    for t in rows:
        ty = t[0]
        if ty in ("WS", "COMMENT", "NL", "ENCODING", "TYPE_COMMENT"):
            continue
        out.append([ty, _h(t[1]), t[2], t[3], t[4], t[5]])
    return out


def op_c09(case):
    src = case["src"]
    py = obs_pytok(src)
    r = {"py_ok": py["toks"] is not None}
    if not r["py_ok"]:
        r["py_exc"] = py["exc"]
        return r
    r["domain"] = py_domain(py["toks"])
    r["has_fstring"] = any(t[0] == "FSTRING_START" for t in py["toks"])
    im = obs_tok(src)
    r["impl_ok"] = im["toks"] is not None
    r["impl_hang"] = bool(im.get("hang"))
    r["impl_exc"] = im.get("exc")
    if r["impl_ok"]:
        r["a"] = reduce_tokens(im["toks"], True)
        r["b"] = reduce_tokens(py["toks"], False)
        if r["a"] != r["b"]:
            ia = [t for t in im["toks"] if t[0] not in ("WS", "COMMENT", "NL")]
            ib = [t for t in py["toks"] if t[0] not in ("COMMENT", "NL")]
            r["diff"] = first_diff(ia, ib)
            # the only difference is where a literal part is cut into FSTRING_MIDDLE tokens (K-C10-named-escape-token-split) /
            # that CPython emits empty FSTRING_MIDDLE tokens inside a format spec (K-C10-empty-parts-in-spec)
            r["merged_equal"] = _merge_middles(ia) == _merge_middles(ib)
            r["noempty_equal"] = _merge_middles(ia, False, True) == _merge_middles(ib, False, True)
            r["both_equal"] = _merge_middles(ia, True, True) == _merge_middles(ib, True, True)
    return r


def _merge_middles(toks, merge=True, drop_empty=False):
    out = []
    for t in toks:
        t = list(t)
        if drop_empty and t[0] == "FSTRING_MIDDLE" and t[1] == "":
            continue
        if merge and out and t[0] == "FSTRING_MIDDLE" and out[-1][0] == "FSTRING_MIDDLE" and out[-1][4:6] == t[2:4]:
            out[-1] = [t[0], out[-1][1] + t[1], out[-1][2], out[-1][3], t[4], t[5]]
        else:
            out.append(t)
    return [[("OP" if x[0] in ("OP", "ERRORTOKEN") else x[0])] + list(x[1:6]) for x in out]


def op_c10(case):
    """f-string source: token streams and trees of both implementations"""
    src = case["src"]
    r = {"tok": op_c09({"src": src})}
    r["tree"] = op_c01({"src": src, "mode": case.get("mode", "eval")})
    if r["tree"].get("diff") is not None:
        # is the only difference that CPython keeps empty Constant('') parts in the JoinedStr of a format spec?
        try:
            a = P().parse_string(src, mode=case.get("mode", "eval"))
            b = ast.parse(src, mode=case.get("mode", "eval"))
            ra, rb = flatten(_drop_empty_spec_parts(a)), flatten(_drop_empty_spec_parts(b))
            r["tree"]["nospecempty_equal"] = ra == rb

            def nospan(rows):  # the spans of text parts set aside (the end of a text part before a continuation: the named-escape cut)
                return [r[:4] + r[8:] if r[1] == "Constant" else r for r in rows]

            r["tree"]["nospecempty_textspan_only"] = nospan(ra) == nospan(rb)
            # CPython cuts the text after a \N{...} escape; in a format spec the pieces stay separate Constant nodes
            ma, mb = flatten(_merge_spec_text(a)), flatten(_merge_spec_text(b))
            r["tree"]["specmerged_equal"] = ma == mb
            r["tree"]["specmerged_textspan_only"] = nospan(ma) == nospan(mb)      # both consequences of the cut in one literal
        except BaseException:  # noqa: BLE001
            r["tree"]["nospecempty_equal"] = False
    return r


def _merge_spec_text(tree):
    """neighbouring text parts of a format spec joined into one (empty ones were dropped before)"""
    for n in ast.walk(tree):
        if isinstance(n, ast.FormattedValue) and isinstance(n.format_spec, ast.JoinedStr):
            out = []
            for v in n.format_spec.values:
                if out and isinstance(v, ast.Constant) and isinstance(out[-1], ast.Constant) and isinstance(v.value, str) and isinstance(out[-1].value, str):
                    out[-1].value += v.value
                    out[-1].end_lineno, out[-1].end_col_offset = v.end_lineno, v.end_col_offset
                else:
                    out.append(v)
            n.format_spec.values = out
    return tree


def _drop_empty_spec_parts(tree):
    for n in ast.walk(tree):
        if isinstance(n, ast.FormattedValue) and isinstance(n.format_spec, ast.JoinedStr):
            n.format_spec.values = [v for v in n.format_spec.values if not (isinstance(v, ast.Constant) and v.value == "")]
    return tree


# ---------------------------------------------------------------------------------------------
# C11: error records through both entry points
# ---------------------------------------------------------------------------------------------
def _err_trace(exc: dict, src: str) -> dict:
    lines = src.split("\n")
    if lines and lines[-1] == "":
        lines = lines[:-1]
    ll = [len(x.rstrip("\r")) for x in lines]

    def num(v):
        return v if isinstance(v, int) and not isinstance(v, bool) else -1

    ln = num(exc.get("lineno"))
    line = lines[ln - 1].rstrip("\r") if 1 <= ln <= len(lines) else ""
    text = exc.get("text")
    textok = isinstance(text, str) and text.startswith(line) and (1 <= ln <= len(lines) + 1)
    fn = exc.get("filename")
    return {"cls": exc["cls"], "nargs": exc.get("nargs", 0), "msg": exc.get("msg") or "", "fname": fn if isinstance(fn, str) else ("" if fn is None else "?"),
            "ln": ln, "off": num(exc.get("offset")), "eln": num(exc.get("end_lineno")), "eoff": num(exc.get("end_offset")),
            "textok": bool(textok), "ll": ll, "line": line[:80], "text": (text if isinstance(text, str) else repr(text))[:120]}


def op_c11(case):
    src = case["src"]
    out = []
    for entry in case.get("entries", ("string", "file")):
        pv = case.get("py_version")
        o = obs_parse(src, "exec", py_version=pv, want=()) if entry == "string" else obs_parse_file(src, py_version=pv, want=())
        e = o.get("exc")
        if e and "SyntaxError" in e["mro"]:
            t = _err_trace(e, src)
            t["entry"] = entry
            out.append(t)
        elif o.get("hang"):
            out.append({"entry": entry, "hang": True})
    return {"errors": out}


# ---------------------------------------------------------------------------------------------
# C12: the two entry points on the same content
# ---------------------------------------------------------------------------------------------
def _outcome(o: dict) -> dict:
    if o.get("hang"):
        return {"kind": "hang"}
    if o.get("ok"):
        return {"kind": "tree", "dump": o.get("dump"), "rows": o.get("rows")}
    e = o["exc"]
    return {"kind": "exc", "cls": e["cls"], "msg": e["msg"], "ln": e.get("lineno"), "off": e.get("offset"), "eln": e.get("end_lineno"),
            "eoff": e.get("end_offset"), "text": e.get("text")}


def op_c12(case):
    import locale

    src = case["src"]
    a = _outcome(obs_parse(src, "exec", want=("rows",)))
    b = _outcome(obs_parse_file(src, want=("rows",)))
    r = {"env": {"preferred": locale.getpreferredencoding(False), "utf8_mode": sys.flags.utf8_mode}, "string": a, "file": b}
    if a["kind"] == "tree" and b["kind"] == "tree":
        r["a"], r["b"] = row_digests(b["rows"]), row_digests(a["rows"])
        if r["a"] != r["b"]:
            r["diff"] = first_diff(b["rows"], a["rows"])
    for x in (a, b):
        x.pop("rows", None)
        x.pop("dump", None)
    return r


# ---------------------------------------------------------------------------------------------
# C13: histories and schedules in one process
# ---------------------------------------------------------------------------------------------
def _call_outcome(call: dict, keep=None):
    """perform one call description; returns an outcome digest (int)"""
    kind, src = call["kind"], call["src"]
    kw = {}
    if call.get("py_version"):
        kw["py_version"] = tuple(call["py_version"])
    if call.get("verbose"):
        kw["verbose"] = True
    arm()
    try:
        if kind == "string":
            tree = P().parse_string(src, mode=call.get("mode", "exec"), **kw)
        elif kind == "file":
            import pathlib

            p = pathlib.Path(_tmpdir()) / call.get("name", "same.py")
            p.write_bytes(src.encode("utf-8"))
            tree = P().parse_file(p, **kw)
        elif kind == "tokens":
            return _h(tok_rows(list(T().generate_tokens(src))))
        else:
            raise ValueError(kind)
    except HangTimeout:
        return -1
    except BaseException as e:  # noqa: BLE001
        r = exc_record(e)
        return _h(("exc", r["cls"], r["msg"], r.get("lineno"), r.get("offset"), r.get("end_lineno"), r.get("end_offset"), r.get("text")))
    if keep is not None and isinstance(tree, ast.AST):
        keep.append(tree)
    return _h(("tree", ast.dump(tree, include_attributes=True))) if isinstance(tree, ast.AST) else _h(("none",))


def op_c13_fresh(case):
    """outcome of every pool call, each meant to run in a fresh interpreter (the pool spawns one worker per batch of 1)"""
    return {"want": _call_outcome(case["call"])}


def op_c13_history(case):
    """a batch of histories replayed back to back in this process"""
    pool, out = case["pool"], []
    for hist in case["histories"]:
        keep, steps = [], []
        at_return = []
        for c in hist:
            n = len(keep)
            got = _call_outcome(pool[c - 1], keep)
            steps.append([c, got])
            if len(keep) > n:
                # the returned tree belongs to the caller: it edits it (line shift, an extra statement) - no later call may
                # see that edit, and no later call may change the tree any further
                tree = keep[-1]
                try:
                    ast.increment_lineno(tree, 7)
                    body = getattr(tree, "body", None)
                    if isinstance(body, list):
                        body.append(ast.Pass(lineno=1, col_offset=0, end_lineno=1, end_col_offset=4))
                except BaseException:  # noqa: BLE001
                    pass
                at_return.append(_h(ast.dump(tree, include_attributes=True)))
        at_end = [_h(ast.dump(t, include_attributes=True)) for t in keep]
        out.append({"steps": steps, "kept": [[a, b] for a, b in zip(at_return, at_end)]})
    return {"results": out}


def op_c13_schedule(case):
    """two parses in two threads, interleaved at token-pull granularity in the order given by each schedule"""
    import threading

    res = []
    a, b = case["a"], case["b"]
    for sched in case["schedules"]:
        turn = {"order": list(sched), "i": 0}
        cv = threading.Condition()
        outs = {}

        def gated(src, me):
            gen = T().generate_tokens(src)
            while True:
                with cv:
                    # wait for my turn; when the schedule is exhausted everybody runs free
                    cv.wait_for(lambda: turn["i"] >= len(turn["order"]) or turn["order"][turn["i"]] == me, timeout=5)
                try:
                    tok = next(gen)
                except StopIteration:
                    with cv:
                        turn["order"] = [x for j, x in enumerate(turn["order"]) if j < turn["i"] or x != me]
                        cv.notify_all()
                    return
                except BaseException:
                    with cv:
                        turn["order"] = [x for j, x in enumerate(turn["order"]) if j < turn["i"] or x != me]
                        cv.notify_all()
                    raise
                with cv:
                    if turn["i"] < len(turn["order"]) and turn["order"][turn["i"]] == me:
                        turn["i"] += 1
                    cv.notify_all()
                yield tok

        def run(src, me):
            from peg_parser.tokenizer import Tokenizer

            try:
                tree = P()(Tokenizer(gated(src, me))).parse("file")
                outs[me] = _h(("tree", ast.dump(tree, include_attributes=True))) if isinstance(tree, ast.AST) else _h(("none",))
            except BaseException as e:  # noqa: BLE001
                r = exc_record(e)
                outs[me] = _h(("exc", r["cls"], r["msg"], r.get("lineno"), r.get("offset"), r.get("end_lineno"), r.get("end_offset"), r.get("text")))
            finally:
                with cv:
                    turn["order"] = [x for j, x in enumerate(turn["order"]) if j < turn["i"] or x != me]
                    cv.notify_all()

        signal_safe = [threading.Thread(target=run, args=(a, 1)), threading.Thread(target=run, args=(b, 2))]
        for t in signal_safe:
            t.start()
        for t in signal_safe:
            t.join(30)
        res.append([outs.get(1, -1), outs.get(2, -1)])
    return {"results": res}


def op_c13_threads(case):
    """free-running thread pool with a tiny switch interval"""
    import concurrent.futures as cf

    sys.setswitchinterval(1e-6)
    pool = case["pool"]
    order = case["order"]
    with cf.ThreadPoolExecutor(max_workers=case.get("threads", 8)) as ex:
        got = list(ex.map(lambda c: _call_outcome(pool[c - 1]), order))
    sys.setswitchinterval(0.005)
    return {"got": got}


def op_c15(case):
    """one program under a list of option points; returns an outcome digest + gate info per point"""
    src, mode = case["src"], case["mode"]
    out = []
    for pt in case["points"]:
        o = obs_parse(src, mode, py_version=(3, pt["v"]) if pt["v"] else None, verbose=pt["verbose"], want=("dump",))
        if o.get("hang"):
            out.append({"d": -1, "kind": "hang"})
        elif o.get("ok"):
            out.append({"d": _h(("tree", o.get("dump"))), "kind": "tree"})
        else:
            e = o["exc"]
            out.append({"d": _h(("exc", e["cls"], e["msg"], e.get("lineno"), e.get("offset"), e.get("end_lineno"), e.get("end_offset"), e.get("text"))),
                        "kind": "exc", "cls": e["cls"], "msg": e["msg"], "syntaxerror": "SyntaxError" in e["mro"]})
    return {"points": out}


# ---------------------------------------------------------------------------------------------
# TwoPass conformance: which diagnostic rules run in which pass (wrappers on the class, no change to the code)
# ---------------------------------------------------------------------------------------------
_pass_state = {"passes": 0, "inv_off": 0, "inv_first": 0, "inv_second": 0, "inv_unguarded": 0}
_UNGUARDED = {"invalid_import", "invalid_parameters", "invalid_lambda_parameters"}     # TwoPass.tla: UnguardedSite


def _instrument_passes():
    cls = P()
    if cls.__dict__.get("_verif_pass_instrumented"):
        return
    for name, f in list(cls.__dict__.items()):
        if name.startswith("invalid_") and callable(f):
            def mk(f, name=name):
                def counted(self, *a, **k):
                    st = _pass_state
                    if name in _UNGUARDED and (not self.call_invalid_rules or st["passes"] < 2):
                        st["inv_unguarded"] += 1
                    elif not self.call_invalid_rules:
                        st["inv_off"] += 1
                    elif st["passes"] < 2:
                        st["inv_first"] += 1
                    else:
                        st["inv_second"] += 1
                    return f(self, *a, **k)
                return counted
            setattr(cls, name, mk(f))
    for start in ("file", "eval"):
        f = cls.__dict__.get(start)
        if f is not None:
            def mk2(f):
                def entered(self, *a, **k):
                    _pass_state["passes"] += 1
                    return f(self, *a, **k)
                return entered
            setattr(cls, start, mk2(f))
    cls._verif_pass_instrumented = True


def op_c15_pass(case):
    """one program under (verbose off, verbose on): outcome class, passes, diagnostic-rule invocations per pass"""
    import contextlib

    _instrument_passes()
    out = []
    for verbose in (False, True):
        for k in _pass_state:
            _pass_state[k] = 0
        arm()
        try:
            with contextlib.redirect_stdout(io.StringIO()):
                P().parse_string(case["src"], mode=case.get("mode", "exec"), verbose=verbose)
            outcome = "tree"
        except HangTimeout:
            outcome = "hang"
        except SyntaxError:
            outcome = "syntaxerror"
        except BaseException:  # noqa: BLE001
            outcome = "other"
        out.append(dict(_pass_state, outcome=outcome, verbose=verbose))
    return {"points": out}


# ---------------------------------------------------------------------------------------------
# C17: generated parser for a small grammar, run on token strings
# ---------------------------------------------------------------------------------------------
def _project_value(v):
    if v is None:
        return "none"
    if hasattr(v, "string") and hasattr(v, "start"):
        return v.string
    if isinstance(v, (list, tuple)):
        return [_project_value(x) for x in v]
    if isinstance(v, (str, int, bool)):
        return v if isinstance(v, str) else repr(v)
    return "?" + type(v).__name__


def _build_parser(gram_text: str, config: str):
    import importlib
    import tempfile

    d = tempfile.mkdtemp(prefix="c17-", dir=_tmpdir())
    gp = os.path.join(d, "g.gram")
    with open(gp, "w") as fh:
        fh.write(gram_text)
    from pegen.build import build_parser

    grammar, _p, _t = build_parser(gp)
    out = io.StringIO()
    if config == "xonsh":
        sys.path.insert(0, REPO) if REPO not in sys.path else None
        gen_mod = importlib.import_module("tasks.generator")
        gen = gen_mod.XonshParserGenerator(grammar, out)
    else:
        from pegen.python_generator import PythonParserGenerator

        gen = PythonParserGenerator(grammar, out)
    gen.generate(gp)
    code = out.getvalue()
    ns: dict = {"__name__": "c17_generated"}
    exec(compile(code, gp + ".py", "exec"), ns)
    return ns["TestParser"], code


def op_c17(case):
    config = case["config"]
    try:
        arm()
        cls, code = _build_parser(case["gram"], config)
    except HangTimeout:
        return {"build": "hang"}
    except BaseException as e:  # noqa: BLE001
        import traceback

        return {"build": "error", "exc": exc_record(e), "tb": traceback.format_exc()[-600:]}
    res = []
    for w in case["strings"]:
        text = " ".join(w) + "\n"
        arm()
        try:
            if config == "xonsh":
                from peg_parser.tokenizer import Tokenizer

                tk = Tokenizer(T().generate_tokens(io.StringIO(text).readline))
                p = cls(tk)
            else:
                from pegen.tokenizer import Tokenizer as PT

                tk = PT(pytokenize.generate_tokens(io.StringIO(text).readline))
                p = cls(tk)
            v = p.r1()
            end = tk.mark()
            if v is None:
                res.append({"st": "fail", "end": 0, "val": []})
            elif not v:
                res.append({"st": "falsy", "end": end, "val": _project_value(v)})
            else:
                res.append({"st": "ok", "end": end, "val": _project_value(v)})
        except HangTimeout:
            res.append({"st": "hang", "end": 0, "val": []})
        except SyntaxError:
            res.append({"st": "raise", "end": 0, "val": []})
        except BaseException as e:  # noqa: BLE001
            res.append({"st": "error:" + type(e).__name__, "end": 0, "val": [], "msg": str(e)[:200]})
    return {"build": "ok", "results": res}


# ---------------------------------------------------------------------------------------------
# C18: work counters through a counting Tokenizer subclass (public constructor)
# ---------------------------------------------------------------------------------------------
def op_c18(case):
    """work = getnext + peek + reset calls on every Tokenizer the public entry point parse_string creates for the input
    (counted on the class, so a restart or a second tokenizer is included)"""
    from peg_parser.tokenizer import Tokenizer

    cnt = [0]
    orig = {n: Tokenizer.__dict__[n] for n in ("getnext", "peek", "reset")}

    def wrap(f):
        def counted(self, *a):
            cnt[0] += 1
            return f(self, *a)
        return counted

    out = []
    budget = case.get("budget", 3_000_000)
    reclimit = case.get("reclimit") or 50000
    for n, f in orig.items():
        setattr(Tokenizer, n, wrap(f))
    try:
        for src in case["srcs"]:
            ntok = None
            sys.setrecursionlimit(50000)
            try:
                ntok = sum(1 for t in T().generate_tokens(src) if t.type.name not in ("WS", "NL", "COMMENT"))
            except BaseException:  # noqa: BLE001
                pass
            sys.setrecursionlimit(reclimit)      # every measurement starts from the same interpreter state
            cnt[0] = 0
            arm()
            outcome = "tree"
            try:
                if case.get("verbose"):      # the trace goes to a sink; the work must not depend on it
                    import contextlib

                    with contextlib.redirect_stdout(io.StringIO()):
                        P().parse_string(src, mode="exec", verbose=True)
                else:
                    P().parse_string(src, mode="exec")
            except HangTimeout:
                outcome = "timeout"
            except RecursionError:
                outcome = "recursion"
            except BaseException as e:  # noqa: BLE001
                outcome = "exc:" + type(e).__name__
            out.append({"tokens": ntok if ntok is not None else max(1, len(src) // 2), "work": cnt[0], "outcome": outcome})
            if out[-1]["work"] > max(budget, 1500 * out[-1]["tokens"]) or outcome == "timeout":
                break  # larger sizes of a family that already exploded are not run
    finally:
        for n, f in orig.items():
            setattr(Tokenizer, n, f)
        sys.setrecursionlimit(1000)
    return {"series": out}


# ---------------------------------------------------------------------------------------------
# TokenSource conformance: drive the real Tokenizer class with a synthetic token stream
# ---------------------------------------------------------------------------------------------
def op_toksrc(case):
    from peg_parser.tokenize import Token, TokenInfo
    from peg_parser.tokenizer import Tokenizer

    src = case["src"]
    raw = case["raw"]
    lined = case.get("lined", False)
    src_lines = src.split("\n")

    def line_text(ln):
        if 1 <= ln <= len(src_lines):
            return src_lines[ln - 1] + ("\n" if ln < len(src_lines) else "")
        return ""

    def gen():
        for t in raw:
            if not lined:
                yield TokenInfo(Token[t["ty"]], src[t["b"]: t["e"]], (1, t["b"]), (1, t["e"]), src)
                continue
            line = line_text(t["ln"])
            text = "" if t["ty"] in ("DEDENT", "ENDMARKER") or (t["ty"] == "NEWLINE" and t["s"] == "") else line[t["b"]: t["e"]]
            yield TokenInfo(Token[t["ty"]], text, (t["ln"], t["b"]), (t["ln"], t["e"]), line)

    out = []
    for hist in case["histories"]:
        tk = Tokenizer(gen())
        obs, dead = [], False
        for h in hist:
            if dead:
                break
            op, arg = h["op"], h["arg"]
            tok, err = None, ""
            prev_end = tk._tokens[-1].end[1] if tk._tokens else 0
            try:
                if op == "peek":
                    tok = tk.peek()
                elif op == "getnext":
                    tok = tk.getnext()
                elif op == "reset":
                    tk.reset(arg)
                elif op == "setcall":
                    tk._call_macro = True      # what handle_func_macro_start does
                elif op == "setproc":
                    tk._proc_macro = True      # handle_proc_macro_start
                elif op == "clearproc":
                    tk._proc_macro = False     # proc_macro_arg
                elif op == "setwith":
                    tk._with_macro = True      # handle_with_macro_start
                elif op == "clearwith":
                    tk._with_macro = False     # handle_with_macro_stmt
            except SyntaxError:
                err, dead = "SyntaxError", True
            except BaseException as e:  # noqa: BLE001
                err, dead = type(e).__name__, True
            o = {"op": op, "arg": arg, "index": int(tk._index), "n": len(tk._tokens), "call": bool(tk._call_macro), "proc": bool(tk._proc_macro),
                 "with": bool(tk._with_macro), "stack": len(tk._stack), "err": err, "ty": "", "b": 0, "e": 0, "slice_ok": True}
            if tok is not None:
                o["ty"], o["b"], o["e"] = tok.type.name, tok.start[1], tok.end[1]
                if tok.type.name == "MACRO_PARAM":
                    if lined:
                        o["text"], o["prev_end"] = tok.string, prev_end
                    else:
                        o["slice_ok"] = tok.string == src[tok.start[1]: tok.end[1]]
            obs.append(o)
        out.append(obs)
    return {"observations": out}


_EV = [
    (r"^\s*(r\d+) \.\.\. \(looking at (\d+)\.(\d+):", "lrenter"),
    (r"^\s*(r\d+)\(\) \.\.\.\. \(looking at (\d+)\.(\d+):", "lenter"),
    (r"^\s*(r\d+)\(\) \.\.\. \(looking at (\d+)\.(\d+):", "enter"),
    (r"^\s*\.\.\. (r\d+)\(\) --> (.*)$", "lexit"),
    (r"^\s*\.\.\. (r\d+)\(\) -> (.*)$", "exit"),
    (r"^\s*Recursive (r\d+) at (\d+) depth (\d+): (.*) to (\d+)$", "iter"),
    (r"^\s*(r\d+)\(\) -> (.*) \[cached\]$", "lrexit"),
    (r"^\s*(r\d+)\(\) -> (.*) \[fresh\]$", "fresh"),
    (r"^\s*(r\d+)\(\) -> (.*)$", "hit"),
]


def parse_verbose_log(text: str, w=()) -> list:
    import re

    ntok = len(w)
    starts, c = {}, 0
    for k, t in enumerate(w):
        starts[c] = k
        c += len(t) + 1
    starts[max(c - 1, 0)] = ntok          # the NEWLINE sits right after the last token

    def pos(m):
        # tokens are separated by one space: map the printed column to the token index; the ENDMARKER is on the next line
        if ntok == 0:
            return 0  # empty input: only the ENDMARKER is left
        return ntok + 1 if int(m.group(2)) > 1 else starts.get(int(m.group(3)), -1)

    out = []
    for ln in text.splitlines():
        for pat, kind in _EV:
            m = re.match(pat, ln)
            if not m:
                continue
            r = int(m.group(1)[1:])
            if kind in ("enter", "lenter", "lrenter"):
                out.append([kind, r, pos(m)])
            elif kind == "iter":
                out.append([kind, r, int(m.group(2)), int(m.group(3)), m.group(4).strip() != "None", int(m.group(5))])
            else:
                out.append([kind, r, m.group(2).strip() != "None"])
            break
    return out


def op_c17_verbose(case):
    """verbose trace of the generated parser (peg_parser runtime): the printed lines, parsed into machine events"""
    import contextlib

    try:
        arm()
        cls, _code = _build_parser(case["gram"], "xonsh")
    except BaseException as e:  # noqa: BLE001
        return {"build": "error", "exc": exc_record(e)}
    from peg_parser.tokenizer import Tokenizer

    res = []
    for w in case["strings"]:
        text = " ".join(w) + "\n"
        buf = io.StringIO()
        st = "ok"
        arm()
        try:
            with contextlib.redirect_stdout(buf):
                tk = Tokenizer(T().generate_tokens(io.StringIO(text).readline))
                v = cls(tk, verbose=True).r1()
            st = "fail" if v is None else "ok"
        except HangTimeout:
            st = "hang"
        except SyntaxError:
            st = "raise"
        except BaseException as e:  # noqa: BLE001
            st = "error:" + type(e).__name__
        res.append({"st": st, "log": parse_verbose_log(buf.getvalue(), w)})
    return {"build": "ok", "results": res}
