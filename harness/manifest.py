"""Regenerates MANIFEST.json from the table below:  /venv/bin/python -m harness.manifest"""
import json
import os

V = os.path.dirname(os.path.dirname(os.path.abspath(__file__)))

CHECKS = {
    "C01": dict(
        technique="TLC GramGen sentence enumeration over the pinned grammar -> real parser vs CPython; recorded tree pairs trace-validated by TLC against AstEq.tla",
        text="Bounded model checking of the program space + trace validation: TLC derives every sentence of each grammar layer (27 GramGen configurations over the pinned reference grammar, lookaheads ignored) up to a token bound; each is written in several spellings/layouts, CPython decides validity, and for every valid program (plus corpus: test data, harvested test inputs, stdlib statements, x layouts) the pair of flattened trees (implementation, CPython) is validated row by row by TLC against AstEq.tla (structure, field values, spans).",
        note="Trusted: CPython 3.12.1 ast.parse (the oracle the property names); concretiser spellings; 24-bit per-aspect row digests. Bounded by sentence length per layer; deeper programs only via macro-terminal expansion and the corpus.",
        ref="5/C01"),
    "C02": dict(
        technique="TLC enumeration of token strings / grammar sentences / single-token edits -> accept-or-raise of real parser vs CPython; verdict pairs trace-validated by TLC (AstEq.tla)",
        text="Bounded model checking of the complement language: inputs built from Python tokens only -- every token string up to a bound (AllTok), GramGen sentences of the pinned and of the WORKING-TREE grammar with all xonsh-only terminals banned (so a widened alternative yields new sentences), every single-token edit/prefix (EditGen over tokens) of valid sentences and stdlib statements, the tabs/spaces indentation family, the line layouts of Indent.tla (leading whitespace x line shape, with the predicted IndentationError / TabError / TokenError), f-string literals of FString.tla and FMode.tla incl. invalid conversions, escapes and braces, numbers glued to a following word, continuation-only lines; CPython rejects => the implementation must raise. TLC validates each recorded verdict pair.",
        note="Trusted: CPython as oracle; lexicon membership holds by construction. Over-acceptance that needs more specific tokens than the bounds / edit neighbourhood is not reached.",
        ref="5/C02"),
    "C03": dict(
        technique="TLC-enumerated input space (CharGen/EditGen) replayed into the real code; recorded outcomes trace-validated by TLC against Total.tla",
        text="Bounded model checking of the input space + trace validation: TLC enumerates every abstract string over each sub-alphabet up to a length bound, random soup, and every proper prefix / single-character edit of the seed programs; each input runs through generate_tokens, parse_string (exec, eval) and parse_file under a watchdog and TLC validates the recorded outcome trace (terminates; outcome class in {tree, SyntaxError*, TokenError}; never None).",
        note="Trusted: watchdog limits (5 s, re-run alone at 10 s before a hang is reported); class representatives stand for their character class; inputs longer than the bounds are covered only through the edit neighbourhood of the corpus.",
        ref="5/C03"),
    "C04": dict(
        technique="trace validation: flattened trees of the real parser checked by TLC against AstShape.tla (ASDL typing, ctx law, span law) + compile() oracle",
        text="Every accepted input of the Python program space (GramGen), the corpus (all harvested inputs incl. xonsh) and the xonsh generators is parsed; TLC validates the flattened tree row by row against AstShape.tla: field kinds against the ASDL table generated from CPython's ast module, child categories, Store/Del/Load context law, complete spans with start<=end inside the source; compile() must not report a malformed tree and may reject semantically only if the written-out Python is rejected too.",
        note="Trusted: ASDL table derived from the ast module docstrings; compile() of CPython 3.12.1; ast.unparse for the written-out Python. Rides on the other generators' bounds.",
        ref="5/C04"),
    "C05": dict(
        technique="TLC enumeration of context x construct from Xonsh.tla (translation table in the spec) -> real parser vs CPython on the written-out program; tree pairs + construct span trace-validated by TLC (AstEq.tla)",
        text="Xonsh.tla holds the 27 constructs with their documented translations, 88 Load contexts (incl. xonsh contexts ${..}, @(..)) and 14 binding contexts; TLC enumerates context x construct, context x context x construct and binding pairs and computes both program texts; the real parser's tree for the xonsh text must equal CPython's tree for the written-out text (positions ignored), the construct's node must span exactly its text, binding targets get Store (checked through the tree equality). TLC validates every recorded pair.",
        note="Trusted: the translation table (taken from tests/data/exprs); CPython parses the written-out program. Depth-2 nesting is sampled in quick, exhaustive in thorough; deeper nesting not enumerated.",
        ref="5/C05"),
    "C06": dict(
        technique="TLC enumeration of command lines from Subproc.tla with the spec's own word-splitting model as oracle; projection of the real Call node trace-validated by TLC (WordSplit.tla)",
        text="Subproc.tla enumerates piece sequences (65 pieces over the shell-word alphabet incl. number-like, operator-like, quoted, non-ASCII and compatibility-character spellings, $NAME, @(..), @$(..), nested forms) x gap assignments x the four bracket forms and computes the expected argument grouping (Words) and runtime function (Func); the real Call node is projected onto word descriptors and TLC validates projection = expectation per argument.",
        note="Oracle is the model (independent of the tokenizer). Bounded: <=2 pieces over the whole alphabet, <=3 (quick) / <=4 (thorough) over core subsets.",
        ref="5/C06"),
    "C07": dict(
        technique="TLC enumeration of macro programs from Macro.tla with the spec's expected captured strings as oracle; captured constants of the real tree trace-validated by TLC (WordSplit.tla)",
        text="Macro.tla enumerates call-macro argument lists (46 segments incl. compatibility characters, bracket groups, strings with commas/brackets, f-strings, keywords, invalid Python, comments/newlines in brackets x blanks x trailing comma x 8 hosts x followers), subprocess-macro bodies x 4 forms x paddings, and with-macro blocks (line trees up to 3-4 lines, nested indentation, blank/comment lines, 3 indentation units, nested in an if block, one-line form); the strings found in the real call_macro / enter_macro / subproc_* call must equal the model's expectation and the follower statement - which may itself be a macro - must parse as on its own. In addition TokenSource.tla (cache / index / push-back / macro flags, the call-macro and the with-macro raw capture loops) is model-checked (IndexOK, PushbackAtMostOne, NoBlankDelivered, ExhaustionIsError, CaptureIsSlice, WithCaptureIsBlock, CacheAppendOnly, WithFlagClearedAtDedent) and every TLC behaviour over 18 synthetic raw token streams is replayed into the real Tokenizer class, state and captured text compared after every call.",
        note="Oracle is the model. Bounded by MaxArgs/MaxSegs/MaxLines per configuration. No known finding left (both earlier ones - a block starting with a comment, search paths / f-strings in a subprocess-macro body - were repaired in /repo).",
        ref="5/C07"),
    "C09": dict(
        technique="TLC-enumerated Python sub-alphabet strings + program layouts -> real tokenizer vs CPython tokenize; stream pairs trace-validated by TLC (TokAgree.tla)",
        text="Every abstract string over the Python sub-alphabets (numbers, operator runs, string prefix/quote/body classes, indentation with spaces/tabs/form feeds/CR, comments, continuations) up to a bound, the C01 program space in several layouts, the corpus and its layout variants are tokenized by both tokenizers; for every text in the domain TLC validates the reduced stream pair against TokAgree.tla (types in order; text and coordinates of NAME/NUMBER/STRING/OP; structural tokens by sequence position).",
        note="Domain (stated in DESIGN 5/C09): CPython's tokenize accepts without ERRORTOKEN, NUMBER tokens are valid literals, no '<>' , no xonsh-only lexeme, no f-string (C10). One known finding (lone CR as a line end); unbalanced closers, continuation-only lines and the continued comment at EOF were repaired.",
        ref="5/C09"),
    "C10": dict(
        technique="TLC enumeration of f-string literals from FString.tla -> real tokenizer/parser vs CPython; token-stream pairs (TokAgree.tla) and tree pairs (AstEq.tla) trace-validated by TLC",
        text="FString.tla enumerates prefix (8) x quote (4) x sequences of 75 items (literal-part classes and replacement-field forms incl. conversions, '=', specs, nested fields, nested f-strings, lambda/dict/walrus, multi-line fields and specs, CRLF twins, backslash-newline, invalid-unless-raw escapes / conversions) x adjacent-literal concatenations (str / bytes / u / f neighbours), plus every complete single-line literal of the mode-machine model FMode.tla; every f-string of the corpus / stdlib sample is added. For every literal CPython accepts, TLC validates the reduced token-stream pair and the flattened tree pair (with spans).",
        note="CPython 3.12.1 is the oracle. Four known findings by family (doubled-brace tokens, non-ASCII columns, and the two CPython tokenizer quirks; nine earlier ones were repaired); a difference is attributed to one only if the same literal with that feature removed (harness/fsreduce.py) agrees completely in tokens and tree - or, for the two CPython tokenizer quirks (token cut after \\N{..}, empty parts in format specs), if the streams / trees recomputed in the worker with exactly those parts set aside are equal - otherwise it is a violation.",
        ref="5/C10"),
    "C11": dict(
        technique="trace validation: every SyntaxError/IndentationError raised by the real parser on TLC-generated rejected inputs checked by TLC against ErrShape.tla",
        text="Rejected snippets (the repository's own invalid test inputs, harvested; special snippets for literal-evaluation, conversion, macro-bracket, dedent-located and version-gate errors) are placed by ErrLayout.tla at 14 positions (first line, after blank/comment lines, after statements, inside space-/tab-indented and nested blocks, before more code, after multi-line tokens and continuations, CRLF, no final newline, after xonsh statements); the single-character edit neighbourhood (EditGen) of seed programs is added; both entry points are used and version-gated syntax is parsed under py_version=(3,8). TLC validates every raised error record against ErrShape.tla.",
        note="Line length = characters without the terminator; offset may be one past it. 'text begins with the source line' is compared by the harness (TLC strings cannot be sliced) and consumed by the spec as a boolean.",
        ref="5/C11"),
    "C12": dict(
        technique="TLC model check of EntryModel.tla (EntryPointsAgree for the file mode read from the working tree) + TLC-enumerated contents replayed through both entry points in 4 process environments; outcome pairs trace-validated by TLC (AstEq.tla)",
        text="Design level: EntryModel.tla models decoding and line splitting of both entry points; TLC checks EntryPointsAgree for every content up to length 6 over {a, non-ASCII, CR, LF} and every locale, instantiated with the encoding/newline arguments parse_file actually passes to open(). Implementation level: every abstract string up to a bound over a 12-class alphabet (incl. CR, LF, non-ASCII, quote, bracket, comment) plus corpus programs and their CRLF / CR / non-ASCII / no-final-newline variants is parsed through parse_file and parse_string in child interpreters under LC_ALL=C.UTF-8 and LC_ALL=C (coercion off), each with -X utf8 on/off; trees (with positions) and errors (class, message, position, text) must coincide.",
        note="Only C and C.UTF-8 locales are installed: the ASCII C locale stands for every non-UTF-8 locale (same default-encoding path).",
        ref="5/C12"),
    "C13": dict(
        technique="TLC enumeration of call histories and token-pull schedules (PureGen.tla) replayed into one interpreter / two gated threads; recorded outcome traces validated by TLC against Pure.tla",
        text="PureGen.tla enumerates every call sequence of length <= 2 (and length 3: sampled in quick, all in thorough) over a pool of 40 call descriptions touching every side channel (path-literal f-strings, failing first/second pass, every macro kind incl. unfinished ones, tokenizer errors mid-stream, verbose, py_version, parse_file on one path with changing content), and every interleaving of two short parses at token-pull granularity. Histories run back to back in one process, schedules with two threads gated per token pull, plus a free-running thread pool (switch interval 1 us). Oracle: the same call in a fresh interpreter (two hash seeds). TLC validates every recorded trace (outcome = fresh outcome at each step; kept trees unchanged at the end).",
        note="Byte-code-level preemption is only sampled (free-running pool); shared state reachable from a parse is a C-implemented lru_cache, immutable singletons and module imports.",
        ref="5/C13"),
    "C15": dict(
        technique="TLC enumeration of the option grid with the gate-table model's prediction (Options.tla) replayed into the real parser; recorded outcomes validated by TLC against OptTrace.tla",
        text="Options.tla holds the gate table (except* -> 3.11; type parameter lists / type statement -> 3.12) and predicts for every program x verbose {F,T} x py_version {None,(3,8)..(3,13)} point: identical to the default, or a SyntaxError naming the required version (for programs rejected anyway but containing gated syntax: still rejected). Programs: gated features in several positions and combinations, look-alikes (type/match as names), plus samples of the C01 program space (valid and invalid) and harvested xonsh inputs. All grid points of all programs are run (stdout discarded) and validated by TLC.",
        note="Also: TwoPass.tla (first pass without the diagnostic invalid_* rules, second pass only to raise) is model-checked and every recorded execution (diagnostic-rule invocations per pass, counted by wrapping the methods on the class) is validated by TLC against PassTrace.tla; a deviation is reported as model drift. Need/validity per program come from CPython's own tree (TryStar, TypeAlias, type_params) when it parses, from the text otherwise. Interpreter 3.12 caps py_version.",
        ref="5/C15"),
    "C16": dict(
        technique="TLC model check of the generator state machine (GenPipe.tla) + real generation runs recorded as traces and validated by TLC against GenTrace.tla",
        text="Design level: GenPipe.tla (to-do queue, helper counter, de-duplication by structure) checked by TLC for OneMethodPerRule, HelperNamesMonotone, DedupIsByStructure, AllRulesEmitted over small abstract grammars. Implementation level: both documented generation steps are run from the working tree under several hash seeds, twice each, and twice within one interpreter; every run is a trace of (method name, normalised-body digest generated, digest shipped, helper number) in emission order plus keyword tables, validated by TLC (one method per rule, helper names monotone, every method equals the shipped one, no extra shipped methods, keyword tables equal, all runs agree with the first).",
        note="Finite quantifier (two pairs): exhaustive for it. Normalisation: ast.unparse round trip, return/argument annotations and docstrings dropped, imports ignored.",
        ref="5/C16"),
    "C17": dict(
        technique="TLC evaluates the denotational PEG semantics (Peg.tla, incl. seed-growing left recursion) for every grammar x token string; the real generators' parsers are run on the same inputs and validated by TLC against PegTrace.tla",
        text="The oracle is the specification: Peg.tla defines Sem for ordered choice, sequences, optional, star/plus, gathers, groups, positive/negative lookahead, cut, forced tokens, memo flags and direct/indirect left recursion, and TLC evaluates it on 36 hand-picked grammars (one per feature pair) + seeded random well-formed grammars (1-3 rules) x every token string up to length 4 (quick) / 5 (thorough) over a 5-token alphabet (NAME, NUMBER, two operators, a keyword). Each grammar is printed in .gram notation, read by the real metagrammar parser, generated by XonshParserGenerator (peg_parser runtime) and by PythonParserGenerator (pegen runtime), and executed through the real tokenizers; result, end position and action value must equal Sem. A history variant generates 24 grammars in one interpreter.",
        note="Family bounds: wrappers apply to a token, rule or group (no wrapper-of-wrapper), forced only of punctuation tokens (the notation's own limits). Leaders computed independently (harness/pegfam.py). No known finding left (the dropped action of a single-item group / rule was repaired in pegen/).",
        ref="5/C17"),
    "C18": dict(
        technique="TLC enumeration of size-parameterised input families (Work.tla) -> work counters of the real parser (Tokenizer calls counted while the public parse_string runs); recorded series validated by TLC against the linear-growth law (WorkLaw.tla)",
        level="model_checking",
        text="Work.tla builds families from 33 nesting constructors and 3 kinds of groups nested inside a subprocess (alone; pairwise alternating in thorough; as expressions, as case patterns and in del/assignment/for/with-as/comprehension target positions) 13 block constructors nested by indentation and 33 chains (three of them one token long: time-outs count), each valid and with 6 breakers (unclosed, wrong closer, doubled token, missing operand, trailing garbage, a rejected LATER statement), at doubling sizes; the same constructs after a flat prefix of 3000 statements (what precedes a construct must not change its cost) and deep nests at the default recursion limit; TLC enumerates them. Every program is parsed through parse_string with getnext/peek/reset counted on the Tokenizer class (a restart or second tokenizer is included); TLC validates the (size, tokens, getnext+peek+reset) series of each family against WorkLaw.tla: a doubling costs at most 2.6x + 4000 calls and no point exceeds 2500 calls per token. A series cut by the work budget counts as unbounded.",
        note="Empirical growth law over the composed family set, constants fixed from the baseline with head-room; 'no input family' is approximated, not proved. No known finding left: invalid input around nested brackets (memoized named_expression), unclosed subprocess groups (memoized cmd_group) and nested case patterns were repaired.",
        ref="5/C18"),
    "C14": dict(
        technique="TLC enumeration of statement sequences from StmtSeq.tla -> composition law checked on the real parser; tree pairs (whole vs shifted parts) trace-validated by TLC (AstEq.tla)",
        text="StmtSeq.tla lists 55 complete statement forms (Python simple/compound, multi-line tokens, comment/blank lines, every xonsh statement form incl. empty macros and path-literal concatenations); TLC enumerates every sequence of up to 2 (all kinds) / 3 (xonsh-heavy subset) kinds in quick, 3 / 4 in thorough; the body of the concatenation must equal the bodies of the parts with shifted line numbers, positions included.",
        note="Reference = the same parser on each part alone (the property's relation). One known finding (blank lines after a with! block join its body - the behaviour the repository's own test asks for).",
        ref="5/C14"),
    "C08": dict(
        technique="trace validation: real token streams checked by TLC against the TokStream.tla law",
        text="Every finished token stream of the real tokenizer on the TLC-generated input spaces (CharGen sub-alphabets, soup, LexGen lexeme sequences, Indent.tla line layouts, FMode.tla f-string lines, f-strings, corpus x layouts) is validated by TLC against TokStream.tla (text=slice, order, gaps only indentation/continuation, line closure, INDENT/DEDENT balance, single ENDMARKER); the first failing clause is named. Three implementation-shaped models predict the complete stream (LexGen.tla at lexeme level; FMode.tla = the f-string mode machine, mid / brace / colon frames with bracket levels, with StackShape, LevelsIncrease, NoOverlap, EndAtBase, FieldsBalanced checked by TLC; Indent.tla for leading whitespace x line shape: INDENT/DEDENT/NEWLINE/NL, end tokens, IndentationError/TabError/TokenError with coordinates; TLC checks StacksIncrease, Balanced, EndBalanced, OneNewlinePerLogicalLine, SpacesNeverTabError, DedentOnlyToOpenLevel on the model) and every prediction is compared with the real stream (model drift is reported in the evidence).",
        note="Trusted: line model = split after \\n (io.StringIO.readline); zero-width NL allowed (CPython does the same); ERRORTOKEN alone does not make a logical line.",
        ref="5/C08"),
}

NOT_YET = "check under construction in this session (specification designed in DESIGN.md, not yet registered)"


def main():
    props = [json.loads(l) for l in open(os.path.join(V, "properties.jsonl"))]
    checks = []
    for pid, c in sorted(CHECKS.items()):
        checks.append({
            "property_id": pid,
            "quick_cmd": f"bin/check {pid} quick",
            "thorough_cmd": f"bin/check {pid} thorough",
            "evidence_file": f"evidence/{pid}.json",
            "replay_cmd_template": f"bin/check {pid} --replay {{path}}",
            "engine": "tlc+harness",
            "level_claimed": {"category": c.get("level", "model_checking"), "text": c["text"], "design_ref": c["ref"]},
            "level_note": c["note"],
            "technique": c["technique"],
        })
    m = {
        "version": 1,
        "setup_cmd": "true",
        "hooks": {"guard": "XONSH_PARSER_VERIF", "enable": "no hooks needed: every observation point is public API (the variable is reserved, nothing in /repo reads it)",
                  "baseline_off_cmd": "cd /repo && /venv/bin/python -m pytest -q -p no:cacheprovider", "source_commits": [], "add_only": True},
        "engines": [{"name": "tlc+harness", "path": "bin/check", "serves_properties": sorted(CHECKS),
                     "kind_free_text": "TLA+ specifications in spec/ checked with TLC 1.8 (generator configurations, model-level invariants, batch trace validation) bound to /repo by the Python harness in harness/ (worker pool importing /repo's working tree)"}],
        "checks": checks,
        "not_applicable": [{"property_id": p["id"], "reason": NOT_YET} for p in props if p["id"] not in CHECKS],
        "notes": "bin/check <ID> quick|thorough ; exit 0 held / 1 VIOLATION / 2 machinery failure. known_findings.json lists genuine defects (known / fixed).",
    }
    json.dump(m, open(os.path.join(V, "MANIFEST.json"), "w"), indent=1)


if __name__ == "__main__":
    main()
