"""Python program space for C01 / C02 / C04 / C15: layered GramGen configurations over the
pinned reference grammar (and the working-tree grammar), concretised to source text."""
from __future__ import annotations

import random

from . import gram
from .concrete import LAYOUTS, Concretiser
from .core import SEED, Run

CONSTS = {"True", "False", "None", "..."}
E = {"expression": "<EXPR>"}
B = {"block": "<BLOCK>"}
S = {"strings": "<STRINGS>"}

# name, start rule, (quick maxtok, thorough maxtok), collapse map, extra banned terminals, wrap template, mode
LAYERS = [
    ("expr", "expression", (4, 5), S, set(), "{}", "eval"),
    ("exprdeep", "expression", (5, 6), {}, CONSTS | {"[", "{", "rule:strings", "await", "lambda", "not", "~", "+"}, "{}", "eval"),
    ("starexprs", "star_expressions", (4, 5), {**S, "disjunction": "<EXPR>"}, CONSTS, "x = {}\n", "exec"),
    ("simple", "simple_stmts", (5, 6), {**S, "expression": "<EXPR>", "star_targets": "<TARGET>"}, CONSTS, "{}", "exec"),
    ("assign", "assignment", (5, 6), {**S, "star_expressions": "<EXPR>", "expression": "<EXPR>", "yield_expr": "<EXPR>"}, CONSTS, "{}\n", "exec"),
    ("targets", "star_targets", (5, 6), {**S, "slices": "<EXPR>", "arguments": "<EXPR>", "genexp": "(<EXPR> for t in u)"}, CONSTS | {"<STRINGS>", "NUMBER", "{"}, "{} = v\n", "exec"),
    ("fortargets", "star_targets", (4, 5), {**S, "slices": "<EXPR>", "arguments": "<EXPR>", "genexp": "(<EXPR> for t in u)"}, CONSTS | {"<STRINGS>", "NUMBER", "{"}, "for {} in v: pass\n", "exec"),
    ("deltargets", "del_stmt", (5, 6), {**S, "slices": "<EXPR>", "arguments": "<EXPR>", "genexp": "(<EXPR> for t in u)"}, CONSTS | {"<STRINGS>", "NUMBER", "{"}, "{}\n", "exec"),
    ("primary", "primary", (5, 6), {**S, **E, "slices": "<EXPR>", "genexp": "(<EXPR> for t in u)"}, CONSTS | {"[", "{"}, "{}", "eval"),
    ("args", "arguments", (7, 8), {**E, "bitwise_or": "<EXPR>"}, set(), "f({})", "eval"),
    ("slices", "slices", (6, 7), {**E, "named_expression": "<EXPR>"}, set(), "x[{}]", "eval"),
    ("lambda", "lambdef", (8, 9), E, set(), "{}", "eval"),
    ("params", "params", (6, 7), {**E, "star_expression": "*<EXPR>"}, set(), "def f({}): pass\n", "exec"),
    ("comp", "atom", (10, 11), {**S, "disjunction": "<EXPR>", "named_expression": "<EXPR>", "expression": "<EXPR>", "star_targets": "<TARGET>",
                              "star_named_expressions": "<EXPR>", "double_starred_kvpairs": "<EXPR>: <EXPR>", "star_named_expression": "<EXPR>",
                              "yield_expr": "yield", "bitwise_or": "<EXPR>"}, CONSTS | {"NAME", "NUMBER", "<STRINGS>"}, "{}", "eval"),
    ("displays", "atom", (7, 8), {**S, "named_expression": "<EXPR>", "expression": "<EXPR>", "bitwise_or": "<EXPR>", "for_if_clauses": "for t in u",
                                  "yield_expr": "yield"}, CONSTS | {"NAME", "NUMBER", "<STRINGS>"}, "{}", "eval"),
    ("compound", "compound_stmt", (10, 11), {**B, **S, "named_expression": "<EXPR>", "expression": "<EXPR>", "star_expressions": "<EXPR>",
                                           "star_targets": "<TARGET>", "star_target": "<TARGET>", "params": "<PARAMS>", "decorators": "<DECOS>",
                                           "type_params": "[T]", "arguments": "<EXPR>"},
     {"rule:match_stmt", "rule:try_stmt"}, "{}", "exec"),
    ("try", "try_stmt", (14, 16), {**B, "expression": "<EXPR>"}, set(), "{}", "exec"),
    ("match", "match_stmt", (14, 15), {**B, "patterns": "<PATTERN>", "named_expression": "<EXPR>", "star_named_expression": "<EXPR>",
                                       "star_named_expressions": "<EXPR>"}, set(), "{}", "exec"),
    ("patterns", "patterns", (4, 5), {**S, "signed_number": "NUMBER", "complex_number": "1+2j", "signed_real_number": "NUMBER"}, set(),
     "match x:\n    case {}:\n        pass\n", "exec"),
    ("imports", "import_stmt", (8, 9), {}, set(), "{}\n", "exec"),
    ("decorators", "decorators", (8, 9), {"named_expression": "<EXPR>", "arguments": "<EXPR>"}, set(), "{}def f(): pass\n", "exec"),
    ("classdef", "class_def_raw", (10, 11), {**B, "type_params": "[T]", "arguments": "<EXPR>"}, set(), "{}", "exec"),
    ("funcdef", "function_def_raw", (12, 13), {**B, "type_params": "[T]", "params": "<PARAMS>", "expression": "<EXPR>"}, set(), "{}", "exec"),
    ("typeparams", "type_params", (7, 8), E, set(), "def f{}(): pass\n", "exec"),
    ("typealias", "type_alias", (9, 10), {**E, "type_params": "[T]"}, set(), "{}\n", "exec"),
    ("withitems", "with_stmt", (11, 12), {**B, "expression": "<EXPR>", "star_target": "<TARGET>"}, set(), "{}", "exec"),
    ("stmtseq", "statements", (6, 7), {"compound_stmt": "<COMPOUND>", "simple_stmt": "<EXPR>"}, set(), "{}", "exec"),
]


def _macro_fix(sent):
    out = []
    for t in sent:
        if " " in t and not t.startswith("<") or "\n" in t:
            # a collapse that is already source text
            out.append(t)
        else:
            out.append(t)
    return out


def py_banned() -> set:
    return set(gram.XONSH_TERMINALS) | set(gram.DEAD_TERMINALS) | {"FSTRING_START", "FSTRING_MIDDLE", "FSTRING_END"}


def sentences(run: Run, tier: str, g: dict | None = None, gmod: str = "RefGram", only=None, tag: str = "") -> dict:
    """layer name -> list of {"sent", "used"}"""
    g = g or gram.load_ref()
    out = {}
    qi = 0 if tier == "quick" else 1
    for name, start, mt, collapse, extra, wrap, mode in LAYERS:
        if only and name not in only:
            continue
        if start not in g["rules"]:
            continue
        collapse = {k: v for k, v in collapse.items() if k in g["rules"]}
        dead = {x[5:] for x in extra if x.startswith("rule:")}
        banned = (py_banned() | {x for x in extra if not x.startswith("rule:")}) - set(collapse.values())
        out[name] = gram.gramgen(run, g, gmod, start, mt[qi], banned, collapse, f"{tag}{name}", dead=dead)
    return out


def layer_info(name):
    for l in LAYERS:
        if l[0] == name:
            return l
    raise KeyError(name)


def programs(run: Run, tier: str, sents: dict, variants: int, layouts_per: int, cap_per_layer: int | None = None) -> list[dict]:
    """Concretise sentences into program cases {src, mode, layer, sent, layout, variant}."""
    conc = Concretiser(SEED)
    rng = random.Random(SEED + 3)
    cases, seen = [], set()
    for name, ss in sents.items():
        _n, _start, _mt, _col, _extra, wrap, mode = layer_info(name)
        if cap_per_layer and len(ss) > cap_per_layer:
            ss = rng.sample(ss, cap_per_layer)
        for s in ss:
            todo = [(0, "plain")]
            for v in range(1, variants):
                todo.append((v, "plain"))
            for _ in range(layouts_per):
                todo.append((rng.randrange(1, 50), rng.choice(LAYOUTS[1:])))
            for v, lay in todo:
                body = conc.text(s["sent"], v, lay)
                src = wrap.replace("{}", body)
                if lay == "ff":
                    src = "\f" + src
                if lay == "crlf":
                    src = src.replace("\r\n", "\n").replace("\n", "\r\n")
                if lay == "nofinalnl":
                    src = src.rstrip("\r\n")
                key = (src, mode)
                if key in seen:
                    continue
                seen.add(key)
                cases.append({"src": src, "mode": mode, "layer": name, "layout": lay, "variant": v})
    return cases


def coverage(g: dict, sents: dict) -> dict:
    """which <rule, alternative> pairs of the Python part of the grammar were used by a sentence"""
    ml = gram.minlen(g, py_banned(), {})
    allp = set()
    for n, r in g["rules"].items():
        if r.get("synthetic") or ml[n] >= gram.INF:
            continue
        for i, alt in enumerate(r["alts"], 1):
            cost = 0
            for it in alt:
                if it["k"] in ("tok", "lit"):
                    cost += gram.INF if it["v"] in py_banned() else 1
                elif it["k"] in ("rule", "plus", "forced", "gather"):
                    cost += ml[it["v"]]
            if cost < gram.INF:
                allp.add((n, i))
    used = set()
    for ss in sents.values():
        for s in ss:
            for u in s["used"]:
                used.add((u[0], u[1]))
    miss = sorted(allp - used)
    return {"alternatives_total": len(allp), "alternatives_used": len(allp & used), "alternatives_unused": [f"{a}#{b}" for a, b in miss][:80]}
