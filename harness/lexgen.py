"""LexGen driver: exports the lexeme table of spec/LexGen.tla, derives the adjacency exclusions
(maximal munch over the table's own texts), runs the generator and returns
[{"src", "lex", "outcome", "toks": [[ty, text, sl, sc, el, ec], ...]}]."""
from __future__ import annotations

import os

from .core import Run
from .tlc import read_export, run_tlc

CFG = "INIT Init\nNEXT Next\nINVARIANT %s\nCHECK_DEADLOCK FALSE\n"
CORE = {1, 4, 6, 8, 9, 12, 16, 20, 21, 25, 26, 29, 40, 45, 46, 47, 48, 49, 52, 54, 56, 71, 73, 74, 75, 77, 79, 80, 82, 84, 85, 86, 87, 88, 91, 94, 96, 97, 98}


def table(run: Run) -> list[dict]:
    f = os.path.join(run.dir, "lextable.ndjson")
    run_tlc(run, "LexGen", CFG % "ExportTable", env={"OUT": f}, name="lextable", consts={"MaxLex": 0, "Use": {1}, "NoAdj": set()}, workers=1)
    t = read_export(f)[0]["table"]
    os.remove(f)
    return t


def no_adjacent(tab: list[dict]) -> set:
    ops = [x["t"] for x in tab if x["cls"] in ("op", "open", "close")]
    bad = set()
    for i, a in enumerate(tab, 1):
        for j, b in enumerate(tab, 1):
            ca, cb, ta, tb = a["cls"], b["cls"], a["t"], b["t"]
            fuse = False
            if ca in ("name", "num") and cb in ("name", "num", "str", "sp"):
                fuse = True
            elif ca in ("op", "open", "close") and cb in ("op", "open", "close"):
                ab = ta + tb
                fuse = any((o.startswith(ta) and len(o) > len(ta) and (ab.startswith(o) or o.startswith(ab))) for o in ops)
            elif ca == "num" and tb[0] == ".":
                fuse = True
            elif ta[-1] == "." and cb == "num":
                fuse = True
            elif ta.endswith("@") and cb in ("name", "sp", "num"):
                fuse = True
            elif ca == "ws" and cb == "ws":
                fuse = True
            elif ca == "str" and cb == "str" and ta[-1] == tb[0]:
                fuse = True   # 's''t' reads as one string with a doubled quote only for triple forms; keep it simple
            if fuse:
                bad.add((i, j))
    return bad


def generate(run: Run, maxlex: int) -> list[dict]:
    tab = table(run)
    bad = no_adjacent(tab)
    out, seen = [], set()
    small = {1, 6, 16, 20, 26, 45, 46, 47, 54, 73, 74, 82, 87, 91, 94, 96, 98}
    configs = [(set(range(1, len(tab) + 1)), min(maxlex, 2)), (CORE, min(maxlex, 3))] + ([(small, 4)] if maxlex >= 4 else [])
    for ci, (use, n) in enumerate(configs):
        f = os.path.join(run.dir, f"lexgen{ci}.ndjson")
        run_tlc(run, "LexGen", CFG % "Export", env={"OUT": f}, name=f"lexgen{ci}", consts={"MaxLex": n, "Use": set(use), "NoAdj": {tuple(x) for x in bad}})
        for c in read_export(f):
            if c["src"] in seen:
                continue
            seen.add(c["src"])
            toks = []
            for t in c["toks"]:
                ty, i, sl, sc, el, ec = t
                toks.append([ty, tab[i - 1]["t"] if i else "", sl, sc, el, ec])
            out.append({"src": c["src"], "lex": c["lex"], "outcome": c["outcome"], "toks": toks})
        os.remove(f)
    out.sort(key=lambda c: c["src"])
    return out


def drift(cases: list[dict], results: list[dict]) -> list[dict]:
    """compare the real token stream with the prediction"""
    diffs = []
    for c, r in zip(cases, results):
        if r.get("hang"):
            continue
        if c["outcome"] == "TokenError":
            if r["toks"] is not None or (r["exc"] or {}).get("cls") != "TokenError":
                diffs.append({"src": c["src"], "predicted": "TokenError", "observed": (r["exc"] or {}).get("cls") or "tokens"})
            continue
        if r["toks"] is None:
            diffs.append({"src": c["src"], "predicted": "tokens", "observed": (r["exc"] or {}).get("cls")})
        elif r["toks"] != c["toks"]:
            k = next((i for i, (a, b) in enumerate(zip(r["toks"], c["toks"])) if a != b), min(len(r["toks"]), len(c["toks"])))
            diffs.append({"src": c["src"], "at": k, "predicted": c["toks"][k: k + 2], "observed": r["toks"][k: k + 2]})
    return diffs
