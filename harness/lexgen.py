"""placeholder until LexGen.tla is built"""


def generate(run, maxlex):
    return []
