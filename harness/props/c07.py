"""C07 -- macros receive the verbatim source text of their arguments / body.

spec -> code: Macro.tla enumerates call-macro argument lists (segments x blanks x trailing
comma x host x follower), subprocess-macro bodies and with-macro blocks (line trees, indentation
units, one-line form) and states the expected captured strings.  The real parser parses each
program; the string constants found in the call_macro / enter_macro / subproc_* call and the
"following code parses as on its own" observation are validated by TLC against WordSplit.tla.
"""
from __future__ import annotations

import os

from ..core import Run
from ..pool import run_ops
from ..tlc import read_export, run_tlc, validate_traces

A40 = set(range(1, 51))
S16 = {1, 2, 3, 4, 5, 6, 7, 9, 10, 11, 14, 15, 22, 25, 27, 28}
H = {1, 2, 3, 4, 5, 6, 7, 8}
BASE = dict(MaxArgs=0, MaxSegs=0, SegUse={1}, MaxLines=0, HostUse={1}, FolUse={1}, TrailUse={""})
TIERS = {
    "quick": [
        ("call", dict(MaxArgs=1, MaxSegs=1, SegUse=A40, HostUse=H, FolUse={2}, TrailUse={"", ",", ", "})),
        ("call", dict(MaxArgs=2, MaxSegs=1, SegUse=S16, HostUse={1, 3}, FolUse={1, 4, 5}, TrailUse={""})),
        ("call", dict(MaxArgs=1, MaxSegs=2, SegUse=A40, HostUse={5}, FolUse={3, 7}, TrailUse={""})),
        ("proc", {}),
        ("with", dict(MaxLines=3, FolUse={1, 2})),
        ("with", dict(MaxLines=2, FolUse={5, 6, 7})),     # the follower is the next macro
    ],
    "thorough": [
        ("call", dict(MaxArgs=1, MaxSegs=2, SegUse=A40, HostUse=H, FolUse={2, 3}, TrailUse={"", ",", ", "})),
        ("call", dict(MaxArgs=2, MaxSegs=1, SegUse=A40, HostUse={1, 3, 5}, FolUse={1, 4}, TrailUse={"", ","})),
        ("call", dict(MaxArgs=3, MaxSegs=1, SegUse=S16, HostUse={1, 8}, FolUse={2}, TrailUse={""})),
        ("call", dict(MaxArgs=2, MaxSegs=2, SegUse={1, 3, 6, 10, 14, 22, 25, 28}, HostUse={3}, FolUse={2}, TrailUse={""})),
        ("proc", {}),
        ("with", dict(MaxLines=4, FolUse={1, 2, 4})),
        ("with", dict(MaxLines=3, FolUse={5, 6, 7})),
        ("call", dict(MaxArgs=2, MaxSegs=1, SegUse=S16, HostUse={1, 3, 5}, FolUse={5, 7}, TrailUse={""})),
    ],
}


def generate(run: Run, tier: str) -> list[dict]:
    out, seen = [], set()
    for i, (kind, c) in enumerate(TIERS[tier]):
        consts = dict(BASE)
        consts.update(c)
        consts["Kind"] = kind
        f = os.path.join(run.dir, f"macro{i}.ndjson")
        run_tlc(run, "Macro", "INIT Init\nNEXT Next\nINVARIANT Export\nCHECK_DEADLOCK FALSE\n", env={"OUT": f}, name=f"macro{i}", consts=consts)
        for case in read_export(f):
            if case["src"] not in seen:
                seen.add(case["src"])
                out.append(case)
        os.remove(f)
    out.sort(key=lambda c: (c["kind"], c["src"]))
    return out


def expected(c: dict) -> list[str]:
    if c["kind"] == "proc":
        return [c["want"][0], c["want"][1].strip()]
    return list(c["want"])


def cases_for_c04(run: Run, tier: str) -> list[dict]:
    cs = generate(run, "quick")
    return [{"src": c["src"], "mode": "exec", "origin": "c07:" + c["kind"]} for c in cs[:: (9 if tier == "quick" else 1)]]


def check(run: Run) -> None:
    cases = generate(run, run.tier)
    res = run_ops("c07", [{"src": c["src"], "kind": c["kind"], "follower": c["follower"]} for c in cases], limit=20.0)
    traces = []
    for i, (c, r) in enumerate(zip(cases, res)):
        run.count_case(c["src"])
        if i % 2503 == 0:
            run.sample({"kind": c["kind"], "src": c["src"], "expected": expected(c)})
        if r.get("hang"):
            run.violation({"src": c["src"], "kind": c["kind"]}, "implementation_hangs")
            continue
        want = expected(c)
        if c["kind"] == "proc" and want[1] == "":
            want = [want[0]] if not r.get("got") or len(r.get("got", [])) == 1 else want
        traces.append({"id": i, "ok": bool(r.get("ok")) and r.get("found", False), "func": "f", "wfunc": "f",
                       "after": r.get("after", "ok") if r.get("ok") else "ok",
                       "got": [[g] for g in r.get("got", [])], "want": [[w] for w in want]})
    verdicts = validate_traces(run, "WordSplit", traces, name="macro")
    for i, (clause, k) in sorted(verdicts.items()):
        if clause != "ok":
            c, r = cases[i], res[i]
            run.violation({"src": c["src"], "kind": c["kind"], "follower": c["follower"]}, clause,
                          {"arg": k, "want": expected(c), "got": r.get("got"), "exc": r.get("exc"), "after": r.get("after")})
    # model-based testing of the real Tokenizer class against TokenSource.tla (synthetic token streams)
    from .. import toksrc

    for pr in toksrc.conformance(run, 10 if run.tier == "quick" else 13):
        if pr["kind"] == "drift":
            run.drift["TokenSource.tla vs Tokenizer class"] = run.drift.get("TokenSource.tla vs Tokenizer class", 0) + 1
            run.extra.setdefault("drift_examples", [])
            if len(run.extra["drift_examples"]) < 5:
                run.extra["drift_examples"].append(pr)
        elif pr["kind"] == "model_law_violated":
            run.extra.setdefault("model_law_violated", []).append(pr)
        else:
            run.violation({"src": pr["stream"], "kind": "token_source", "calls": pr["calls"]}, "token_source_law_broken_by_real_class", pr["observed"])
    run.rule = "macro programs enumerated by TLC from Macro.tla (call / proc / with / one-line with); distinct = distinct program texts"
    run.assumptions += ["an empty subprocess-macro body may be passed as '' or omitted", "the follower's stand-alone parse (same parser) is the reference for 'code after the macro is unaffected'"]


def replay(rec: dict) -> int:
    c = rec["case"]
    r = run_ops("c07", [{"src": c["src"], "kind": c["kind"], "follower": c.get("follower", "")}], limit=20.0)[0]
    print("source:", repr(c["src"]), "\nobserved:", r, "\nexpected:", rec["detail"].get("want"))
    return 0 if r.get("got") == rec["detail"].get("want") and r.get("after") == "ok" else 1
