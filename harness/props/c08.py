"""C08 -- the tokenizer is lossless.

Deciding direction: code -> spec.  The real generate_tokens() is run on every input of the
TLC-generated spaces (CharGen exhaustive sub-alphabets + random soup, LexGen lexeme sequences,
corpus programs and their line-layout variants); every finished token stream is recorded as a
trace and TLC validates it against spec/TokStream.tla, which names the first failing clause.
"""
from __future__ import annotations

import random

from .. import alpha, corpus, gens
from ..core import SEED, Run
from ..pool import run_ops
from ..tlc import validate_traces

TIERS = {
    "quick": dict(char=[("num", 3), ("op", 3), ("str", 4), ("indent", 4), ("xonsh", 3), ("all", 2)], soup=(24, 40),
                  lex=3, variants=1, corpus_cap=60),
    "thorough": dict(char=[("num", 5), ("op", 3), ("str", 5), ("indent", 5), ("xonsh", 4), ("all", 3), ("py", 4)],
                     soup=(40, 400), lex=4, variants=1, corpus_cap=100000),
}


def lines_of(src: str) -> list[list[int]]:
    out, cur = [], []
    for ch in src:
        cur.append(ord(ch))
        if ch == "\n":
            out.append(cur)
            cur = []
    if cur:
        out.append(cur)
    return out


def trace_of(i: int, src: str, toks: list) -> dict:
    return {
        "id": i,
        "lines": lines_of(src),
        "toks": [{"ty": t[0], "sl": t[2], "sc": t[3], "el": t[4], "ec": t[5], "txt": [ord(c) for c in t[1]]} for t in toks],
    }


def inputs(run: Run, cfg: dict) -> list[dict]:
    rng = random.Random(SEED)
    cases = []
    seen = set()

    def add(src, origin, abs_=None):
        if src in seen:
            return
        seen.add(src)
        cases.append({"src": src, "origin": origin, "abs": abs_})

    for sub, n in cfg["char"]:
        for a in gens.chargen(run, sub, n):
            add(alpha.concretise(a), f"chargen:{sub}", a)
            for v in range(1, cfg["variants"]):
                add(alpha.concretise(a, rng, v), f"chargen:{sub}:v{v}", a)
    ln, num = cfg["soup"]
    for a in gens.chargen(run, "all", ln, minlen=ln, simulate=num):
        add(alpha.concretise(a, rng, 1), "soup", a)
    for c in gens.lexgen(run, cfg["lex"]):
        add(c["src"], "lexgen", c["lex"])
        if cases and cases[-1]["src"] == c["src"]:
            cases[-1]["predicted"] = c
    for c in gens.indent(run):
        add(c["src"], "indent.tla")
        if cases and cases[-1]["src"] == c["src"]:
            cases[-1]["predicted_layout"] = c
    for c in gens.fmode(run)[:: (1 if run.tier == "quick" else 2)]:
        add(c["src"], "fmode.tla")
        if cases and cases[-1]["src"] == c["src"]:
            cases[-1]["predicted_fmode"] = c
    from . import c10

    for c in c10.generate(run, run.tier)[:: (3 if run.tier == "quick" else 1)]:
        add(c["src"], "fstring.tla")
    for name, src in corpus.programs(cap=cfg["corpus_cap"]):
        add(src, f"corpus:{name}")
        for lay, s2 in corpus.layouts(src):
            add(s2, f"corpus:{name}:{lay}")
    return cases


def check(run: Run) -> None:
    cfg = TIERS[run.tier]
    cases = inputs(run, cfg)
    res = run_ops("tok", [{"src": c["src"]} for c in cases])
    traces, idx = [], {}
    for i, (c, r) in enumerate(zip(cases, res)):
        run.count_case(c["src"], nontrivial=len(c["src"]) > 1)
        if r.get("hang"):
            run.note("hang_not_judged_here(C03)")
            continue
        if r["toks"] is None:
            run.note("rejected_by_tokenizer")
            continue
        idx[i] = c
        traces.append(trace_of(i, c["src"], r["toks"]))
        if len(c["src"]) > 6:
            run.sample({"src": c["src"], "tokens": [[t[0], t[1]] for t in r["toks"]][:12]})
    # refinement: the lexeme-level scanner model (LexGen.tla) predicts these streams exactly
    from .. import lexgen

    lx = [(c["predicted"], r) for c, r in zip(cases, res) if "predicted" in c]
    d = lexgen.drift([a for a, _ in lx], [b for _, b in lx])
    run.extra["lexgen_streams_predicted"] = len(lx)
    if d:
        run.drift["LexGen.tla prediction vs real token stream"] = len(d)
        run.extra["lexgen_drift_examples"] = d[:5]
    # refinement: the line-structure model (Indent.tla) predicts INDENT / DEDENT / NEWLINE / NL, the end tokens and the errors
    from .. import indent

    ix = [(c["predicted_layout"], r) for c, r in zip(cases, res) if "predicted_layout" in c]
    d = indent.drift([a for a, _ in ix], [b for _, b in ix])
    run.extra["indent_layouts_predicted"] = len(ix)
    if d:
        run.drift["Indent.tla prediction vs real token stream"] = len(d)
        run.extra["indent_drift_examples"] = d[:5]
    # refinement: the f-string mode machine (FMode.tla) predicts the token stream of every single-line f-string input
    from .. import fmode

    fx = [(c["predicted_fmode"], r) for c, r in zip(cases, res) if "predicted_fmode" in c]
    d = fmode.drift([a for a, _ in fx], [b for _, b in fx])
    run.extra["fmode_inputs_predicted"] = len(fx)
    if d:
        run.drift["FMode.tla prediction vs real token stream"] = len(d)
        run.extra["fmode_drift_examples"] = d[:5]
    verdicts = validate_traces(run, "TokStream", traces, name="tokstream")
    for i, (clause, k) in sorted(verdicts.items()):
        if clause != "ok":
            c = idx[i]
            run.violation({"src": c["src"], "origin": c["origin"]}, clause, {"token_index": k, "tokens": res[i]["toks"][max(0, k - 3): k + 1]})
    run.rule = ("inputs = TLC-enumerated abstract strings per sub-alphabet (CharGen), TLC -simulate soup, LexGen lexeme "
                "sequences, corpus programs x layout variants; distinct = distinct source texts longer than 1 char; each finished "
                "token stream validated by TLC against TokStream.tla")
    run.assumptions += ["source lines are split after \\n as io.StringIO.readline does (the tokens' coordinate system)",
                        "class representatives stand for their character class (alpha.py)"]


def replay(rec: dict) -> int:
    from ..core import Run as R

    run = R("C08", "quick")
    src = rec["case"]["src"]
    r = run_ops("tok", [{"src": src}])[0]
    print("source:", repr(src))
    print("tokens:", r)
    if r.get("toks") is None:
        print("tokenizer rejects the input now")
        return 0
    v = validate_traces(run, "TokStream", [trace_of(0, src, r["toks"])])
    print("verdict:", v[0])
    return 0 if v[0][0] == "ok" else 1
