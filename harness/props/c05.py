"""C05 -- xonsh expression sugar desugars identically in every expression context.

spec -> code: Xonsh.tla holds the construct table with the documented translations and the
list of contexts; TLC enumerates context x construct (and context x context x construct, and
binding context x binding construct) and computes both program texts.  The real parser parses
the xonsh text, CPython parses the written-out text; the pair of flattened trees (positions
ignored) plus the span of the construct node are validated by TLC against AstEq.tla.
"""
from __future__ import annotations

import os
import random

from ..core import SEED, Run
from ..pool import run_ops
from ..tlc import read_export, run_tlc, validate_traces

TIERS = {"quick": dict(depth2=6000), "thorough": dict(depth2=10**9)}


def generate(run: Run, depth2: bool) -> list[dict]:
    out = os.path.join(run.dir, "xonsh.ndjson")
    cfg = f"CONSTANTS\n Depth2 = {'TRUE' if depth2 else 'FALSE'}\nINIT Init\nNEXT Next\nINVARIANT Export\nCHECK_DEADLOCK FALSE\n"
    run_tlc(run, "Xonsh", cfg, env={"OUT": out}, name="xonshgen")
    cases = read_export(out)
    os.remove(out)
    cases.sort(key=lambda c: (c["k"], c["c1"], c["c2"], c["con"]))
    return cases


def want_span(c: dict):
    if not c["span"]:
        return []
    pre = c["pre"]
    l = pre.count("\n") + 1
    col = len(pre) - (pre.rfind("\n") + 1)
    x = c["x"]
    if "\n" in x:      # a construct spread over several lines ends on a later line, at the length of its last line
        return [l, col, l + x.count("\n"), len(x) - (x.rfind("\n") + 1)]
    return [l, col, l, col + len(x)]


def cases_for(run: Run, tier: str) -> list[dict]:
    cfg = TIERS[tier]
    cases = generate(run, True)
    d2 = [c for c in cases if c["k"] == "load2"]
    rest = [c for c in cases if c["k"] != "load2"]
    if len(d2) > cfg["depth2"]:
        d2 = random.Random(SEED + 6).sample(d2, cfg["depth2"])
    return rest + d2


def cases_for_c04(run: Run, tier: str) -> list[dict]:
    cs = cases_for(run, tier)
    if tier == "quick":
        cs = [c for c in cs if c["k"] != "load2"] + [c for c in cs if c["k"] == "load2"][:600]
    return [{"src": c["src"], "mode": c["mode"], "origin": f"c05:{c['k']}:{c['c1']}:{c['c2']}:{c['con']}"} for c in cs]


def check(run: Run) -> None:
    cases = cases_for(run, run.tier)
    res = run_ops("c05", [{"src": c["src"], "ref": c["ref"], "mode": c["mode"]} for c in cases], limit=20.0)
    traces = []
    for i, (c, r) in enumerate(zip(cases, res)):
        run.count_case(c["src"])
        if i % 997 == 0:
            run.sample({"kind": c["k"], "xonsh": c["src"], "written_out": c["ref"]})
        if not r["py_ok"]:
            # the written-out program is not valid Python: the context does not admit this construct (e.g. await outside
            # async is fine for ast, but `f(**x or y)`); nothing to compare
            run.note("written_out_not_valid_python")
            continue
        if r["impl_hang"]:
            run.violation({"src": c["src"], "ref": c["ref"], "mode": c["mode"], "kind": c["k"], "ctx": [c["c1"], c["c2"]], "construct": c["con"]}, "implementation_hangs")
            continue
        traces.append({"id": i, "aok": r["impl_ok"], "bok": True, "a": r.get("a", []), "b": r.get("b", []), "pos": False,
                       "want": want_span(c) if r["impl_ok"] else [], "spans": [list(s) for s in r.get("spans", [])]})
    verdicts = validate_traces(run, "AstEq", traces, name="sugar")
    for i, (clause, k) in sorted(verdicts.items()):
        if clause != "ok":
            c, r = cases[i], res[i]
            run.violation({"src": c["src"], "ref": c["ref"], "mode": c["mode"], "kind": c["k"], "ctx": [c["c1"], c["c2"]], "construct": c["con"]},
                          clause, {"row": k, "diff": r.get("diff"), "impl_exc": r.get("impl_exc"), "want_span": want_span(c)})
    run.extra["cases"] = len(cases)
    run.exhaustive = run.tier == "thorough"
    run.rule = ("context x construct, context x context x construct (seeded sample in quick, all in thorough), binding context x "
                "binding construct, enumerated by TLC from Xonsh.tla; distinct = distinct xonsh program texts")
    run.assumptions += ["translation table = the documented one (tests/data/exprs), CPython parses the written-out program"]


def replay(rec: dict) -> int:
    c = rec["case"]
    r = run_ops("c05", [{"src": c["src"], "ref": c["ref"], "mode": c["mode"]}], limit=20.0)[0]
    print("xonsh:", repr(c["src"]), "\nwritten out:", repr(c["ref"]))
    print("impl ok:", r["impl_ok"], r.get("impl_exc"), "diff:", r.get("diff"))
    same = r["impl_ok"] and [x[:2] for x in r.get("a", [])] == [x[:2] for x in r.get("b", [])]
    return 0 if same else 1
