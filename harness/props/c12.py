"""C12 -- file and string entry points agree, in every locale/encoding environment.

Design level: EntryModel.tla models how each entry point turns content into scanner lines; TLC
checks EntryPointsAgree for every content up to a bound and every locale, for the file mode the
working tree actually uses (read from the source of parse_file).  Implementation level: TLC
enumerates contents over {a, =, 1, (, ', e-acute, CR, LF, space, #, tab} (CharGen); corpus
programs (valid and invalid, CRLF / CR / no final newline variants) are added; each content is
parsed through both entry points in child interpreters started under four environments
(LC_ALL=C.UTF-8 / LC_ALL=C without coercion, each with -X utf8 on / off).  Recorded outcome
pairs are validated by TLC: trees against AstEq.tla (with positions), errors field by field.
"""
from __future__ import annotations

import random
import re

from .. import alpha, corpus, gens
from ..core import REPO, SEED, Run
from ..pool import run_ops
from ..tlc import run_tlc, validate_traces

ENVS = {
    "utf8": (dict(LC_ALL="C.UTF-8", LANG="C.UTF-8", PYTHONUTF8="0"), ["-X", "utf8=0"]),
    "c": (dict(LC_ALL="C", LANG="C", PYTHONCOERCECLOCALE="0", PYTHONUTF8="0"), ["-X", "utf8=0"]),
    "c_utf8mode": (dict(LC_ALL="C", LANG="C", PYTHONCOERCECLOCALE="0", PYTHONUTF8="1"), ["-X", "utf8=1"]),
    "utf8_utf8mode": (dict(LC_ALL="C.UTF-8", LANG="C.UTF-8", PYTHONUTF8="1"), ["-X", "utf8=1"]),
}
SUB = ["a", "=", "1", "(", "sq", "uc", "cr", "nl", "sp", "#", "tab", ":"]
TIERS = {"quick": dict(n=4, corpus=60), "thorough": dict(n=5, corpus=1500)}


def file_mode() -> tuple[str, str]:
    """(Enc, Newline) that parse_file uses, read from the working tree's source"""
    src = open(f"{REPO}/peg_parser/subheader.py", encoding="utf-8").read()
    m = re.search(r"def parse_file\(.*?with open\(([^)]*)\)", src, re.S)
    args = m.group(1) if m else ""
    enc = "utf8" if re.search(r"encoding\s*=\s*[\"']utf-?8[\"']", args) else "locale"
    nl = "lf" if re.search(r"newline\s*=\s*[\"']\\n[\"']", args) else "universal"
    return enc, nl


def check(run: Run) -> None:
    cfg = TIERS[run.tier]
    rng = random.Random(SEED + 12)
    # design level
    enc, nl = file_mode()
    st = run_tlc(run, "EntryModel", "INIT Init\nNEXT Next\nINVARIANT EntryPointsAgree\nCHECK_DEADLOCK FALSE\n", name="entrymodel", expect_violation=True,
                 consts={"MaxLen": 6, "Enc": enc, "Newline": nl, "Locales": {"utf8", "ascii"}})
    run.extra["model_file_mode"] = [enc, nl]
    run.extra["model_EntryPointsAgree"] = "violated" if st["violated"] else "holds"
    # implementation level
    cases, seen = [], set()

    def add(src, origin):
        if src not in seen and "\x00" not in src:
            seen.add(src)
            cases.append({"src": src, "origin": origin})

    for a in gens.chargen(run, SUB, cfg["n"], name="contents"):
        add(alpha.concretise(a), "chargen")
    progs = [s for _, s in corpus.programs(cap=cfg["corpus"])]
    for s in progs:
        add(s, "corpus")
        for lay, s2 in corpus.layouts(s):
            add(s2, "corpus:" + lay)
        add(s.replace("\n", "\r"), "corpus:cr")
        add(s.replace("x", "é").replace("a", "ü"), "corpus:nonascii")
    for s in ("\ufeffx = 1\n", "\ufeffy = f'{a = }'\n"):   # a leading byte order mark: the file entry point decodes the same text
        add(s, "bom")
    for s in corpus.invalid_seeds() + [h["src"] for h in corpus.harvested()[::9] if h["mode"] == "exec"]:
        add(s, "invalid_or_harvested")
        add(s.replace("\n", "\r\n"), "invalid_or_harvested:crlf")
    # what an earlier statement leaves behind must not differ between the entry points: every pair of statement kinds of
    # StmtSeq.tla (macros, multi-line strings, debug fields, ...), and every kind followed by a statement that is rejected
    from . import c14

    PROBES = ("v = f'{u = }' +\n", "y = (1 +\n", "z = 1 1\n", 'w = f\'\'\'{u\n =}\'\'\' 2\n')
    for c in c14.generate(run, "quick"):
        if len(c["kinds"]) <= 2:
            add("".join(c["parts"]), "stmtseq")
        if len(c["kinds"]) == 1:
            for probe in PROBES:
                add(c["parts"][0] + probe, "stmtseq:then_error")
    traces_tree, traces_err, meta = [], [], {}
    for envname, (env, pyargs) in ENVS.items():
        res = run_ops("c12", [{"src": c["src"]} for c in cases], limit=20.0, batch=100, env_extra=env, pyargs=pyargs)
        for i, (c, r) in enumerate(zip(cases, res)):
            run.count_case(envname + c["src"], nontrivial=len(c["src"]) > 1)
            s, f = r["string"], r["file"]
            tid = len(meta)
            meta[tid] = (c, envname, r)
            if tid % 9001 == 0:
                run.sample({"env": envname, "src": c["src"], "string": s["kind"], "file": f["kind"]})
            if s["kind"] == "tree" and f["kind"] == "tree":
                traces_tree.append({"id": tid, "aok": True, "bok": True, "a": r["a"], "b": r["b"], "pos": True, "want": [], "spans": []})
            else:
                # errors: compared field by field as one-row "trees" <<class+message, position, text>>; a tree vs an error is aok # bok
                def row(o):
                    return [[hash_(o.get("cls"), o.get("msg")), hash_(o.get("text")), hash_(o.get("ln"), o.get("off"), o.get("eln"), o.get("eoff"))]]
                traces_err.append({"id": tid, "aok": f["kind"] != "exc" and f["kind"] != "hang", "bok": s["kind"] != "exc" and s["kind"] != "hang",
                                   "a": row(f) if f["kind"] == "exc" else [], "b": row(s) if s["kind"] == "exc" else [], "pos": True, "want": [], "spans": []})
    v = validate_traces(run, "AstEq", traces_tree, name="entry_tree")
    v.update(validate_traces(run, "AstEq", traces_err, name="entry_err"))
    names = {"node_type_or_structure": "error_class_or_message", "field_values": "error_text", "span": "error_position"}
    for tid, (clause, k) in sorted(v.items()):
        if clause != "ok":
            c, envname, r = meta[tid]
            both_exc = r["string"]["kind"] == "exc" and r["file"]["kind"] == "exc"
            run.violation({"src": c["src"], "origin": c["origin"], "env": envname}, names.get(clause, clause) if both_exc else clause,
                          {"string": r["string"], "file": r["file"], "diff": r.get("diff"), "python_env": r["env"]})
    run.rule = ("contents = all abstract strings up to the bound over a 12-class alphabet (CharGen) + corpus programs and their CRLF / CR / "
                "non-ASCII / no-final-newline variants, x 4 process environments; distinct = (environment, text)")
    run.assumptions += ["only the C and C.UTF-8 locales are installed: the ASCII C locale stands for every non-UTF-8 locale (same default-encoding path)"]


def hash_(*xs) -> int:
    import zlib

    return zlib.crc32(repr(xs).encode()) & 0xFFFFFF


def replay(rec: dict) -> int:
    c = rec["case"]
    env, pyargs = ENVS[c["env"]]
    r = run_ops("c12", [{"src": c["src"]}], limit=20.0, env_extra=env, pyargs=pyargs)[0]
    print("content:", repr(c["src"]), "env:", c["env"], r["env"], "\nstring:", r["string"], "\nfile:  ", r["file"], "\ndiff:", r.get("diff"))
    same = r["string"] == r["file"] and r.get("a") == r.get("b")
    return 0 if same else 1
