"""C13 -- parsing is a pure function: deterministic, history-free and thread-safe.

spec -> code: Pure.tla enumerates histories (every sequence of up to MaxLen calls over a pool of
call descriptions chosen to touch every side channel: path-literal f-strings, failing parses in
the first / second pass, every macro kind incl. unfinished ones, tokenizer errors mid-stream,
verbose and py_version options, parse_file on one path whose content changes) and schedules
(every interleaving of two parses at token-pull granularity).  Histories are replayed back to
back in one interpreter, schedules deterministically with two threads gated per token pull, and
a free-running thread pool with a 1 us switch interval is an additional driver.  The oracle is
the outcome of the same call in a fresh interpreter (one process per call).  Recorded histories
are validated by TLC against Pure.tla (outcome = fresh outcome at every step; no returned tree
changes later).
"""
from __future__ import annotations

import os
import random

from ..core import SEED, Run
from ..pool import run_ops
from ..tlc import read_export, run_tlc, validate_traces

S = lambda src, **kw: dict(kind="string", src=src, **kw)  # noqa: E731
F = lambda src, **kw: dict(kind="file", src=src, **kw)  # noqa: E731
POOL = [
    S("x = (1,\r 2)\n"), S("y = [3,\r 4]\n"), S("z = 5 \\\n"),
    S("x = 1\n"), S("p = pf'/t{q}'\n"), S("q = p'/srv' pf'/{u}'\n"), S("s = 'plain' \"text\"\n"), S("x = = 1\n"),
    S("f(a for a in b, c)\n"), S("f!(a, b c)\n"), S("f!(a\n"), S("with! ctx:\n    raw body\ny = 1\n"), S("with! ctx:\n"),
    S("$(echo! x y)\n"), S("$(reload!)\n"), S("![reset!]\nx = 1\n"), S("a.b.c(\n"), S("x = 'abc\ny = 2\n"),
    S("s = \"\"\"never closed\n"), S("v = f\"{a b}\"\n"), S("v = f'{a!r:>{w}}' f'''{b}\n'''\n"), S("x = 1\n", verbose=True), S("x = = 1\n", verbose=True),
    S("type X = int\n", py_version=(3, 8)), S("type X = int\n"), S("a + b", mode="eval"), S("a +", mode="eval"), dict(kind="tokens", src="f'{a' + $(\n"),
    F("x = (\n"), F("y = 1\n"), F("z = = 2\n"), F("a = 1\nb = 2\nc = = 3\nd = 4\n"), F("def f():\n    return $(ls)\n"),
    S("a = [[[[1]]]] + [[[[2]]]]\n"), S("class C:\n    def m(self):\n        return `*.py`\n"), S("if a:\n\tb\n        c\n"), S("$X = ${'Y'} = 1\n"), S("f'{x}' 'y'\n"),
    S("a = f\"c\\td{x}\"\n"), S("b = rf\"c\\td{x}\"\n"), S("c = 'c\\td'\n"), S("d = r'c\\td' b'c\\td'\n"), S("u'a' 'b'\n"),
    S("x = " + "(" * 40 + "1" + ")" * 40 + "\n"), S("x = = 1\n", mode="eval"), S("type X = int\n", py_version=(3, 13), verbose=True),
    S("lambda: (yield)\n"), S("match x:\n    case [1, *r]:\n        pass\n"), S("del ()\n"), S("1 if 2 else\n"), S("print(f!(x), ![ls], $(pwd))\n"),
]
SCHED_PAIRS = [("x = 1\n", "y = f'{a}'\n"), ("f!(a, b)\n", "g(c, d)\n"), ("s = '''a\nb'''\n", "t = 2\n"), ("with! c:\n    raw\n", "z = $(ls)\n"),
               ("x = = 1\n", "y = 2\n"), ("p = pf'/a{b}'\n", "q = 'c'\n"), ("y = 2\n", "x = " + "(" * 40 + "1" + ")" * 40 + "\n"),
               ("a = f\"c\\td{x}\"\n", "b = rf\"c\\td{x}\"\n")]
TIERS = {"quick": dict(h3=2500, sched=8, threads=300), "thorough": dict(h3=10**9, sched=len(SCHED_PAIRS), threads=4000)}


def gen(run: Run, mode: str, name: str, **consts) -> list[dict]:
    f = os.path.join(run.dir, name + ".ndjson")
    c = {"Mode": mode, "PoolSize": len(POOL), "MaxLen": 1, "N1": 1, "N2": 1}
    c.update(consts)
    run_tlc(run, "PureGen", "INIT HInit\nNEXT HNext\nINVARIANT HExport\nCHECK_DEADLOCK FALSE\n", env={"OUT": f}, name=name, consts=c)
    res = read_export(f)
    os.remove(f)
    return res


def check(run: Run) -> None:
    cfg = TIERS[run.tier]
    rng = random.Random(SEED + 13)
    # oracle: every pool call in its own fresh interpreter (twice, under two hash seeds: determinism)
    want = [r["want"] for r in run_ops("c13_fresh", [{"call": c} for c in POOL], limit=30.0, batch=1, fresh=True)]
    want2 = [r["want"] for r in run_ops("c13_fresh", [{"call": c} for c in POOL], limit=30.0, batch=1, fresh=True, env_extra={"PYTHONHASHSEED": "12345"})]
    for i, (a, b) in enumerate(zip(want, want2)):
        if a != b:
            run.violation({"call": POOL[i]}, "outcome_differs_between_fresh_interpreters", {"digests": [a, b]})
    # histories
    hs = [h["calls"] for h in gen(run, "history", "hist2", MaxLen=2)]
    h3 = [h["calls"] for h in gen(run, "history", "hist3", MaxLen=3) if len(h["calls"]) == 3]
    if len(h3) > cfg["h3"]:
        h3 = rng.sample(sorted(h3), cfg["h3"])
    hs = sorted(hs) + sorted(h3)
    rng.shuffle(hs)
    chunks = [hs[i: i + 150] for i in range(0, len(hs), 150)]
    res = run_ops("c13_history", [{"pool": POOL, "histories": ch} for ch in chunks], limit=300.0, batch=1)
    traces, meta = [], []
    for ch, r in zip(chunks, res):
        for h, o in zip(ch, r["results"]):
            run.count_case("h" + str(h), nontrivial=len(h) > 1)
            traces.append({"id": len(traces), "steps": [[c, got, want[c - 1]] for c, got in o["steps"]], "kept": o["kept"]})
            meta.append({"history": h, "calls": [POOL[c - 1] for c in h]})
    for m in meta[:: max(1, len(meta) // 8)]:
        run.sample(m)
    # schedules: two parses interleaved per token pull
    for a, b in SCHED_PAIRS[: cfg["sched"]]:
        ta = run_ops("tok", [{"src": a}, {"src": b}], limit=20.0)
        n1, n2 = len(ta[0]["toks"] or []), len(ta[1]["toks"] or [])
        n1, n2 = min(n1, 7), min(n2, 7)
        scheds = [s["sched"] for s in gen(run, "schedule", f"sched{len(traces)}", N1=n1, N2=n2)]
        fresh = run_ops("c13_schedule", [{"a": a, "b": b, "schedules": [[1] * n1 + [2] * n2]}], limit=120.0, batch=1, fresh=True)[0]["results"][0]
        rs = run_ops("c13_schedule", [{"a": a, "b": b, "schedules": scheds[i: i + 60]} for i in range(0, len(scheds), 60)], limit=300.0, batch=1)
        k = 0
        for r in rs:
            for got in r["results"]:
                run.count_case("s" + a + b + str(scheds[k]))
                traces.append({"id": len(traces), "steps": [[1, got[0], fresh[0]], [2, got[1], fresh[1]]], "kept": []})
                meta.append({"schedule": scheds[k], "a": a, "b": b})
                k += 1
    # free-running threads
    order = [rng.randrange(1, len(POOL) + 1) for _ in range(cfg["threads"])]
    order = [c for c in order if POOL[c - 1]["kind"] != "file"]  # one shared path: concurrent rewriting of the file is not a parse-level race
    got = run_ops("c13_threads", [{"pool": POOL, "order": order}], limit=600.0, batch=1)[0]["got"]
    traces.append({"id": len(traces), "steps": [[c, g, want[c - 1]] for c, g in zip(order, got)], "kept": []})
    meta.append({"threads": "free-running pool, switch interval 1us", "order": order[:50]})
    run.count_case("threads")
    verdicts = validate_traces(run, "Pure", traces, name="pure")
    for i, (clause, k) in sorted(verdicts.items()):
        if clause != "ok":
            m = dict(meta[i])
            if "history" in m:
                m["failing_call"] = POOL[m["history"][k - 1] - 1] if k - 1 < len(m["history"]) else None
            run.violation(m, clause, {"step": k, "trace": traces[i]["steps"][:k + 1]}, key=None)
    run.rule = ("histories = all call sequences of length <= 2 over the pool + length 3 (sampled in quick, all in thorough), replayed back to back in one "
                "process; schedules = all token-pull interleavings of pairs of short parses; one free-running thread-pool run; distinct = history / schedule")
    run.assumptions += ["fresh-interpreter outcome (one process per call, two hash seeds) is the reference", "byte-code level preemption is only sampled by the free-running pool"]


def replay(rec: dict) -> int:
    c = rec["case"]
    if "history" not in c:
        print("schedule / thread case: re-run the check")
        return 1
    want = [r["want"] for r in run_ops("c13_fresh", [{"call": x} for x in POOL], limit=30.0, batch=1, fresh=True)]
    r = run_ops("c13_history", [{"pool": POOL, "histories": [c["history"]]}], limit=300.0, batch=1, fresh=True)[0]["results"][0]
    ok = all(got == want[i - 1] for i, got in r["steps"]) and all(a == b for a, b in r["kept"])
    print("history:", c["history"], "steps:", r["steps"], "ok:", ok)
    return 0 if ok else 1
