"""C02 -- no over-acceptance inside the Python lexicon.

Inputs are built from Python tokens only (membership in the lexicon holds by construction):
every token string up to a bound (AllTok = CharGen over a token vocabulary), GramGen sentences
of the pinned AND of the working-tree grammar with every xonsh-only terminal banned (lookaheads
ignored, so the set over-approximates what either grammar accepts), every single-token edit /
proper prefix (EditGen over tokens) of valid sentences and of corpus statements, and the
indentation family.  CPython decides which are invalid; the implementation must raise on
those.  The recorded verdict pairs are validated by TLC against AstEq.tla (clause
implementation_accepts_what_reference_rejects).
"""
from __future__ import annotations

import io
import random
import tokenize

from .. import corpus, gens, gram, pyprog
from ..concrete import Concretiser
from ..core import SEED, Run
from ..pool import run_ops
from ..tlc import validate_traces

VOCAB = ["NAME", "NUMBER", "STRING", "(", ")", "[", "]", "{", "}", ":", ",", ".", "=", "==", "+", "-", "*", "**", "if", "else",
         "for", "in", "not", "lambda", "and", "is", "import", "from", "as", "def", "class", "return", "yield", "await", "async",
         "with", "pass", ";", "@", "->", ":=", "|", "~", "...", "None", "del", "global", "try", "except", "match", "case", "type",
         "_", "NEWLINE", "<", "%", "raise", "assert", "while", "elif", "finally", "break", "nonlocal", "or", "/", "//", "@=", "+="]
QVOCAB = ["NAME", "NUMBER", "STRING", "(", ")", "[", "]", "{", "}", ":", ",", ".", "=", "*", "**", "if", "else", "for", "in",
          "not", "lambda", "import", "from", "as", "def", "return", "yield", "await", ";", "@", ":=", "del", "NEWLINE"]
TIERS = {
    "quick": dict(alltok=(QVOCAB, 3), cap=1200, mut_seeds=150, mut_vocab=QVOCAB[:24], stmts=60, indent=3),
    "thorough": dict(alltok=(VOCAB[:28], 4), cap=6000, mut_seeds=1200, mut_vocab=VOCAB[:40], stmts=600, indent=4),
}
SIG = {tokenize.NAME, tokenize.NUMBER, tokenize.STRING, tokenize.OP}


def statement_token_edits(run: Run, stmts: list[str], vocab: list[str]) -> list[str]:
    """single-token edits of corpus statements, applied in place (spacing kept)"""
    toks_per, usable = [], []
    for s in stmts:
        try:
            ts = [t for t in tokenize.generate_tokens(io.StringIO(s).readline) if t.type in SIG and t.start[0] == t.end[0]]
        except (tokenize.TokenError, SyntaxError):
            continue
        if 1 < len(ts) <= 60:
            toks_per.append(ts)
            usable.append(s)
    if not usable:
        return []
    conc = {"NAME": "zz", "NUMBER": "7", "STRING": "'q'", "NEWLINE": "\n"}
    out = []
    for e in gens.editgen_raw(run, [len(t) for t in toks_per], vocab, ("del", "rep", "dup", "swap", "prefix"), name="stmtedit"):
        s, ts = usable[e["seed"]], toks_per[e["seed"]]
        lines = s.split("\n")
        off = [0]
        for ln in lines:
            off.append(off[-1] + len(ln) + 1)
        span = lambda t: (off[t.start[0] - 1] + t.start[1], off[t.end[0] - 1] + t.end[1])  # noqa: E731
        p = e["pos"]
        if e["op"] == "prefix":
            a, _ = span(ts[p]) if p < len(ts) else (len(s), 0)
            out.append(s[:a])
            continue
        a, b = span(ts[p - 1])
        if e["op"] == "del":
            out.append(s[:a] + s[b:])
        elif e["op"] == "rep":
            out.append(s[:a] + conc.get(e["cls"], e["cls"]) + s[b:])
        elif e["op"] == "dup":
            out.append(s[:b] + " " + s[a:b] + s[b:])
        elif e["op"] == "swap" and p < len(ts):
            c, d = span(ts[p])
            out.append(s[:a] + s[c:d] + s[b:c] + s[a:b] + s[d:])
    return out


OPERANDS = ["a", "a | b", "a < b", "not a", "a and b", "a or b", "a if c else b", "lambda: a", "a := b", "(a := b)", "yield a", "*a", "**a", "await a", "-a", "a ** b",
            "a, b", "a for a in b", "[a]", "a.b", "a[0]", "a()", "1", "'s'", "..."]
TEMPLATES = ["{**%s}\n", "{'k': 1, **%s}\n", "[*%s]\n", "f(*%s)\n", "f(**%s)\n", "x = *%s,\n", "a[*%s]\n", "a[%s:%s]\n", "@%s\ndef f(): pass\n", "for x in *%s, y: pass\n",
             "del %s\n", "with %s as y: pass\n", "x: %s = 1\n", "y = -%s\n", "y = a ** %s\n", "async def g():\n    await %s\n", "def g():\n    x = yield %s\n",
             "def g():\n    return *%s, 1\n", "raise %s\n", "assert %s\n", "y = lambda: %s\n", "[y for y in %s]\n", "{y: %s for y in z}\n", "y = x if %s else z\n",
             "y = f'{%s}'\n", "y = f'{%s!r:>4}'\n", "for %s in y: pass\n", "%s = 1\n", "%s += 1\n", "y = (%s for q in r)\n", "print(%s, sep='')\n", "y = %s,\n",
             "import %s\n", "class C(%s): pass\n", "def f(p=%s): pass\n", "def f(p: %s): pass\n", "match %s:\n    case 1: pass\n", "match v:\n    case %s: pass\n"]


EVAL_FORMS = ["a,", "a, b", "a, b,", "(a,)", "a", "*a,", "*a, b", "a, *b", "a if b else c,", "lambda: a,", "lambda: (a,)", "a := b", "(a := b),", "a for a in b", "(a for a in b),",
              "yield", "yield a,", "await a,", "not a,", "a or b,", "a, b if c else d", "a,\n", "a, # c", " a,", "a ,", "[a,]", "{a,}", "{a: b,}", "f(a,)", "a[b,]", "a[b, c]", "a[:, 1]",
              "**a", "*a", "a = b", "a,, b", ",", ", a", "a, b, ", "$(ls),", "p'/x',", "f'{a},'", "f'{a}',", "1,", "'s',", "...,", "None,", "a.b,", "a[0],", "a(),", "-a,", "a ** b,"]


def eval_matrix() -> list[str]:
    """texts for mode="eval": one-element tuples without parentheses, trailing commas, starred items, ..."""
    return list(EVAL_FORMS)


CALL_ARGS = ["a", "*a", "**k", "k=1", "a for a in b", "*a for a in b", "**k for x in y", "k=1 for x in y", "k=v := 1", "a := 1", "k=*a", "(yield)", "lambda: 0", "*a, ", ""]


def call_matrix() -> list[str]:
    out = [f"f({x})\n" for x in CALL_ARGS]
    out += [f"f({x}, {y})\n" for x in CALL_ARGS for y in CALL_ARGS if x and y]
    out += [f"class C({x}): pass\n" for x in CALL_ARGS] + [f"@d({x})\ndef g(): pass\n" for x in CALL_ARGS] + [f"y = a.b({x})[0]\n" for x in CALL_ARGS]
    return out


def operand_matrix() -> list[str]:
    return [t.replace("%s", o) for t in TEMPLATES for o in OPERANDS]


def indent_family(run: Run, n: int) -> list[str]:
    """programs whose lines take their indentation, independently, from a set of whitespace strings mixing spaces, tabs and
    form feeds: flat blocks (every line its own unit) and nested blocks (outer / inner / inner / dedent)"""
    units = {"s1": " ", "s2": "  ", "s4": "    ", "s7": "       ", "s8": "        ", "t": "\t", "ts": "\t ", "st": " \t", "tt": "\t\t", "s2t": "  \t",
             "ts7": "\t       ", "ft": "\f\t", "sf4": " \f    ", "none": ""}
    out = []
    for combo in gens.chargen(run, list(units), n, minlen=2, name="indentfam"):
        ws = [units[u] for u in combo]
        out.append("if a:\n" + "".join(w + f"x{i} = {i}\n" for i, w in enumerate(ws)))
        # nested: first unit = outer block, the others = lines of the inner block, then a dedent to the outer unit
        out.append("if a:\n" + ws[0] + "if b:\n" + "".join(w + f"y{i}\n" for i, w in enumerate(ws[1:])) + ws[0] + "z\n")
    return out


def check(run: Run) -> None:
    cfg = TIERS[run.tier]
    rng = random.Random(SEED + 2)
    conc = Concretiser(SEED)
    cases, seen = [], set()

    def add(src, mode, origin):
        if (src, mode) not in seen:
            seen.add((src, mode))
            cases.append({"src": src, "mode": mode, "origin": origin})

    # 1. grammar sentences of the pinned and of the working-tree grammar
    gref = gram.load_ref()
    gwt = gram.load_wt()
    with open(run.dir + "/WtGram.tla", "w") as fh:
        fh.write(gram.render(gwt, "WtGram"))
    sref = pyprog.sentences(run, run.tier, gref)
    swt = pyprog.sentences(run, run.tier, gwt, gmod="WtGram", tag="wt_")
    for tag, sents in (("ref", sref), ("wt", swt)):
        for c in pyprog.programs(run, run.tier, sents, 1, 0, cap_per_layer=cfg["cap"] if tag == "ref" else cfg["cap"] * 4):
            add(c["src"], c["mode"], f"gramgen:{tag}:{c['layer']}")
    # 2. every token string up to a bound
    vocab, n = cfg["alltok"]
    for s in gens.alltok(run, vocab, n):
        add(conc.text(s, 0) + ("\n" if s[-1] != "NEWLINE" else ""), "exec", "alltok")
    # 3. single-token edits of valid sentences and corpus statements
    pool = [s["sent"] for name in ("simple", "expr", "compound", "lambda", "params", "args", "comp", "imports", "patterns", "withitems", "try")
            for s in sref.get(name, [])]
    pool = rng.sample(pool, min(cfg["mut_seeds"], len(pool)))
    for e in gens.editgen_raw(run, [len(p) for p in pool], cfg["mut_vocab"], ("prefix", "del", "rep", "dup", "swap"), name="sentedit"):
        s2 = gens.apply_edit(pool[e["seed"]], e)
        if s2:
            t = conc.text(s2, 0)
            add(t if t.endswith("\n") else t + "\n", "exec", "sentedit:" + e["op"])
    stmts = [s for _, s in corpus.stdlib_statements(12 if run.tier == "quick" else 120, max_len=400)]
    stmts = [s for s in stmts if not corpus.has_fstring(s)]
    stmts = rng.sample(stmts, min(cfg["stmts"], len(stmts)))
    for t in statement_token_edits(run, stmts, cfg["mut_vocab"][:12] if run.tier == "quick" else cfg["mut_vocab"]):
        add(t, "exec", "stmtedit")
    # 3b. valid sentences followed by a dangling suffix (continuation at end of input, unclosed opener, ...)
    SUFFIXES = ["\\\n", "\\", " \\\n", "\\\n\n", "\\\n  ", "    \\\n", "(", "[", "'", '"""', ";", " \\\n#c\n", "\\\r\n", ")", ":", "\\\n\\\n"]
    for sent in pool[: max(20, len(pool) // 6)]:
        t = conc.text(sent, 0)
        base = t if t.endswith("\n") else t + "\n"
        for sfx in SUFFIXES:
            add(base + sfx, "exec", "suffix")
            add(base.rstrip("\n") + sfx, "exec", "suffix_same_line")
    # 3c. f-string literals (FString.tla): those CPython rejects must be rejected too
    from . import c10

    fs = c10.generate(run, run.tier)
    for c in fs[:: (3 if run.tier == "quick" else 1)]:
        if not any(x in c["src"] for x in ("$", "`", "?", "&&", "||")):     # Python lexicon only
            add(c["src"] + "\n", "exec", "fstring.tla")
    # 4. indentation
    for t in indent_family(run, cfg["indent"]):
        add(t, "exec", "indent")
    for c in gens.indent(run, light=True):
        add(c["src"], "exec", "indent.tla:" + c["outcome"])
    for c in gens.fmode(run):
        if c["outcome"] == "ok":
            add(c["src"] + "\n", "exec", "fmode.tla")

    # 5. lexical corners the token-level generators cannot write: a number glued to a following word, a line that holds
    #    nothing but a backslash continuation
    import keyword

    for kw in keyword.kwlist + keyword.softkwlist + ["a", "e", "x1", "_"]:
        for num in ("1", "1.5", "0x1", "1j", "1e3", "0b1", "1_0", "0"):
            for tmpl in ("x = {n}{k} y\n", "with {n}{k} x: pass\n", "[{n}{k} for x in y]\n", "raise {n}{k} x\n", "x = y if {n}{k} z\n", "f({n}{k})\n",
                         "x = {n}{k}\n", "x = {n} {k}{n}\n"):
                add(tmpl.format(n=num, k=kw), "exec", "glued")
    for pre in ("", "y = 1\n", "if a:\n    b\n", "if a:\n    b\n    c\n", "def f():\n\treturn 1\n"):
        for w1 in ("", " ", "  ", "    ", "\t"):
            for w2 in ("", " ", "  ", "    ", "\t", "        "):
                add(pre + w1 + "\\\n" + w2 + "x = 1\n", "exec", "contline")
                add(pre + w1 + "\\\n" + w1 + "\\\n" + w2 + "x = 1\n", "exec", "contline")
    # 6. which expression forms each restricted operand position admits (CPython decides)
    for t in operand_matrix():
        add(t, "exec", "operand-matrix")
    for t in call_matrix():
        add(t, "exec", "call-matrix")
    for t in eval_matrix():
        if not any(x in t for x in ("$", "p'")):
            add(t, "eval", "eval-matrix")
    res = run_ops("c01", [{"src": c["src"], "mode": c["mode"]} for c in cases], limit=20.0)
    traces, invalid = [], 0
    for i, (c, r) in enumerate(zip(cases, res)):
        if r["py_ok"]:
            continue
        if "﻿" in c["src"] or corpus.has_at_paren(c["src"]):
            continue
        if "SyntaxError" not in ((r.get("py_exc") or {}).get("mro") or []):
            run.note("cpython_failed_without_a_syntax_error")      # e.g. ValueError from its own AST validation for f'{x:{y=}}': not a rejection
            continue
        invalid += 1
        run.count_case(c["src"] + c["mode"], nontrivial=len(c["src"]) > 2)
        if invalid % 2999 == 0:
            run.sample({"src": c["src"], "origin": c["origin"], "cpython": r["py_exc"]["msg"]})
        if r["impl_hang"]:
            continue  # C03
        traces.append({"id": i, "aok": r["impl_ok"], "bok": False, "a": [], "b": [], "pos": False, "want": [], "spans": []})
    verdicts = validate_traces(run, "AstEq", traces, name="accept")
    for i, (clause, _k) in sorted(verdicts.items()):
        if clause != "ok":
            c, r = cases[i], res[i]
            run.violation({"src": c["src"], "mode": c["mode"], "origin": c["origin"]}, clause,
                          {"cpython": r.get("py_exc"), "impl_type": r.get("impl_type")})
    run.extra["inputs_total"] = len(cases)
    run.extra["invalid_per_cpython"] = invalid
    run.rule = ("inputs built from Python tokens only: GramGen sentences (pinned + working-tree grammar, xonsh terminals banned), "
                "all token strings up to a bound, single-token edits/prefixes of valid sentences and stdlib statements, indentation "
                "family; evaluated = those CPython rejects; distinct = distinct (text, mode)")
    run.assumptions += ["CPython 3.12.1 ast.parse (SyntaxError incl. IndentationError/TabError, ValueError for NUL) is the oracle"]


def replay(rec: dict) -> int:
    c = rec["case"]
    r = run_ops("c01", [{"src": c["src"], "mode": c["mode"]}], limit=20.0)[0]
    print("source:", repr(c["src"]), "mode:", c["mode"])
    print("cpython accepts:", r["py_ok"], r.get("py_exc"), " implementation accepts:", r["impl_ok"], r.get("impl_exc"))
    return 1 if (not r["py_ok"] and r["impl_ok"]) else 0
