"""C03 -- totality: every input terminates with a tree or SyntaxError/TokenError.

Inputs are enumerated by TLC (CharGen: every abstract string over each sub-alphabet up to a
bound + random soup; EditGen: every proper prefix and single-character edit of every seed
program).  Each is run through generate_tokens and parse_string (exec and eval; parse_file for
the edit neighbourhood) under a watchdog; the recorded outcomes are validated by TLC against
spec/Total.tla.
"""
from __future__ import annotations

import random

from .. import alpha, corpus, gens
from ..core import SEED, Run
from ..pool import run_ops
from ..tlc import validate_traces

QREPL = ["(", ")", "]", "}", "sq", "dq", "bsl", ":", "$", "!", "{", "sp", "nl", "bt", ","]
TIERS = {
    "quick": dict(char=[("num", 3), ("op", 2), ("str", 3), ("indent", 4), ("xonsh", 3), ("all", 2), ("py", 3)], soup=(30, 40),
                  hv=25, repl=QREPL, variants=1, maxseed=160),
    "thorough": dict(char=[("num", 5), ("op", 3), ("str", 5), ("indent", 5), ("xonsh", 4), ("all", 3), ("py", 4)],
                     soup=(40, 600), hv=250, repl=sorted(alpha.CLASSES), variants=1, maxseed=300),
}


def outcome(o: dict, e: str, mode="", entry="") -> dict:
    ev = {"e": e, "mode": mode, "entry": entry, "sanc": False, "rtype": ""}
    if o.get("hang"):
        ev["out"] = "hang"
    elif o.get("exc"):
        ev["out"] = "exc"
        ev["sanc"] = bool(o["exc"]["sanctioned"])
        ev["rtype"] = o["exc"]["cls"]
    elif e == "tok":
        ev["out"] = "ok"
    elif o.get("ok"):
        ev["rtype"] = o.get("type", "")
        ev["out"] = "none" if ev["rtype"] == "NoneType" else "tree"
    else:
        ev["out"] = "unknown"
    return ev


def events(r: dict) -> list[dict]:
    if r.get("hang"):
        return [{"e": "tok", "mode": "", "entry": "", "out": "hang", "sanc": False, "rtype": ""}]
    evs = [outcome(r["tok"], "tok")]
    for key, mode, entry in (("parse_exec", "exec", "string"), ("parse_eval", "eval", "string"), ("file_exec", "exec", "file")):
        if key in r:
            evs.append(outcome(r[key], "parse", mode, entry))
    return evs


def check(run: Run) -> None:
    cfg = TIERS[run.tier]
    rng = random.Random(SEED)
    cases, seen = [], set()

    def add(src, origin, op="total"):
        if (src, op) in seen or (op != "total" and any("\ud800" <= ch <= "\udfff" for ch in src)):
            return      # a lone surrogate cannot be written to a UTF-8 file: string entry point only
        seen.add((src, op))
        cases.append({"src": src, "origin": origin, "op": op, "modes": ("exec", "eval")})

    for sub, n in cfg["char"]:
        for a in gens.chargen(run, sub, n):
            add(alpha.concretise(a), f"chargen:{sub}")
            for v in range(1, cfg["variants"]):
                add(alpha.concretise(a, rng, v), f"chargen:{sub}:v{v}")
    ln, num = cfg["soup"]
    for a in gens.chargen(run, "all", ln, minlen=ln, simulate=num):
        add(alpha.concretise(a, rng, 1), "soup")
    seeds = corpus.xonsh_seeds() + [s for _, s in corpus.programs(cap=cfg["hv"]) if len(s) <= cfg["maxseed"]]
    seeds = sorted(set(seeds))
    for s in seeds:
        add(s, "seed", "total_file")
    for e in gens.editgen(run, seeds, cfg["repl"]):
        add(e["src"], f"edit:{e['op']}", "total_file")
    from . import c10

    fs = c10.generate(run, run.tier)
    for c in fs[:: (6 if run.tier == "quick" else 1)]:
        add(c["src"], "fstring.tla")
        add(c["src"][1:-1] + "\n", "fstring.tla:stmt")
    for c in gens.lexgen(run, 3 if run.tier == "quick" else 4)[:: (4 if run.tier == "quick" else 1)]:
        add(c["src"], "lexgen")
    # depth: the parser is recursive, the interpreter's stack is not unbounded
    for n in (60, 150, 400, 1200):
        for pre, core, post in (("(", "1", ")"), ("[", "", "]"), ("f(", "x", ")"), ("{1: ", "2", "}"), ("-", "1", ""), ("not ", "a", ""), ("lambda: ", "0", ""),
                                ("$(echo ", "a", ")"), ("@(", "1", ")"), ("x[", "0", "]"), ("a if b else ", "c", ""), ("(yield ", "1", ")"), ("f'{", "1", "}'")):
            add(pre * n + core + post * n + "\n", "deep")
        add("".join("    " * i + "if a:\n" for i in range(min(n, 400))) + "    " * min(n, 400) + "pass\n", "deep")
    for s in ("x = '\ud800'\n", "'\udfff'\n", "x = f'\ud800{y}'\n", "$(echo '\ud800')\n", "f'{x:{y=}}'\n", "f'{x:{y=!r:{z=}}}'\n", "x = " + "7" * 5000 + "\n", "x = 0x" + "f" * 5000 + "\n",
              "x = " + "1" * 5000 + ".5\n", "x = " + "1" * 400 + "e" + "9" * 400 + "\n", "x = 1e" + "9" * 30 + "j\n"):
        add(s, "literal-evaluation")
    from . import c02

    for s in c02.call_matrix() + c02.operand_matrix() + c02.eval_matrix() + corpus.invalid_seeds():
        add(s, "rejected-or-not:matrices")
    for d in range(8, 70):
        for o, c_ in (("(", ")"), ("[", "]"), ("f(", ")"), ("{1: ", "}"), ("$(echo @(", "))")):
            add("x = " + o * d + "a" + c_ * d + " +\n", "depth-band:rejected")
            add(o * d + "a b" + c_ * d + "\n", "depth-band:rejected")
    for c in gens.indent(run, light=True)[:: (3 if run.tier == "quick" else 1)]:
        add(c["src"], "indent.tla")
    for c in gens.fmode(run)[:: (4 if run.tier == "quick" else 3)]:
        add(c["src"], "fmode.tla")
    by_op = {}
    for i, c in enumerate(cases):
        by_op.setdefault(c["op"], []).append(i)
    res = [None] * len(cases)
    for op, idxs in by_op.items():
        out = run_ops(op, [{"src": cases[i]["src"], "modes": cases[i]["modes"]} for i in idxs], limit=5.0, hang_budget=150)
        for i, r in zip(idxs, out):
            res[i] = r
    traces = []
    for i, (c, r) in enumerate(zip(cases, res)):
        run.count_case(c["src"], nontrivial=len(c["src"]) > 1)
        if r.get("skipped_after_hangs"):
            run.note("not_run_after_150_timeouts")
            continue
        if r.get("hang") and r.get("unconfirmed"):
            run.note("hang_candidates_not_confirmed")
            continue
        traces.append({"id": i, "evs": events(r)})
    for c in cases[:: max(1, len(cases) // 10)]:
        run.sample({"src": c["src"], "origin": c["origin"]})
    verdicts = validate_traces(run, "Total", traces, name="total")
    for i, (clause, k) in sorted(verdicts.items()):
        if clause != "ok":
            c = cases[i]
            ev = events(res[i])[k - 1]
            run.violation({"src": c["src"], "origin": c["origin"], "op": c["op"]}, clause,
                          {"event": ev, "exc": (res[i].get({"tok": "tok"}.get(ev["e"], f"{'file' if ev['entry']=='file' else 'parse'}_{ev['mode']}")) or {}).get("exc")},
                          key=None)
    run.rule = ("TLC-enumerated abstract strings per sub-alphabet (CharGen) + TLC -simulate soup + every proper prefix / "
                "single-character edit (EditGen) of the seed programs; tokenizer exhaustion, parse_string exec+eval and "
                "parse_file under a CPU/wall watchdog; distinct = distinct texts longer than 1 char")
    run.assumptions += ["a hang is a case that exceeds 5 s twice (second time with 10 s, low parallelism)",
                        "default interpreter recursion limit (1000)"]


def replay(rec: dict) -> int:
    c = rec["case"]
    r = run_ops(c.get("op", "total"), [{"src": c["src"], "modes": ("exec", "eval")}], limit=5.0)[0]
    print("source:", repr(c["src"]))
    evs = events(r)
    for ev in evs:
        print(ev)
    run = Run("C03", "quick")
    v = validate_traces(run, "Total", [{"id": 0, "evs": evs}])
    print("verdict:", v[0])
    return 0 if v[0][0] == "ok" else 1
