"""C04 -- every returned tree is a well-formed, compilable CPython AST.

code -> spec: every accepted input of the other generators (Python program space, xonsh
contexts x constructs of C05, command lines of C06, macros of C07, statement sequences of
C14, corpus incl. all harvested xonsh inputs) is parsed; the flattened tree is validated by TLC
against AstShape.tla (ASDL typing from gen/Asdl.tla, context law, span law) and the built-in
compile() is the second oracle.
"""
from __future__ import annotations

import random

from .. import corpus, gram, pyprog
from ..core import SEED, Run
from ..pool import run_ops
from ..tlc import validate_traces

TIERS = {"quick": dict(cap=220, hv=900, variants=2), "thorough": dict(cap=2500, hv=100000, variants=2)}


def xonsh_cases(run: Run, tier: str) -> list[dict]:
    out = []
    for mod, fn in (("c10", "cases_for_c04"), ("c05", "cases_for_c04"), ("c06", "cases_for_c04"), ("c07", "cases_for_c04"), ("c14", "cases_for_c04")):
        try:
            m = __import__(f"harness.props.{mod}", fromlist=[fn])
            out += getattr(m, fn)(run, tier)
        except (ImportError, AttributeError):
            run.note(f"generator_not_available_{mod}")
    return out


def check(run: Run) -> None:
    cfg = TIERS[run.tier]
    rng = random.Random(SEED + 4)
    g = gram.load_ref()
    sents = pyprog.sentences(run, run.tier, g)
    cases = pyprog.programs(run, run.tier, sents, cfg["variants"], 1, cap_per_layer=cfg["cap"])
    cases = [{"src": c["src"], "mode": c["mode"], "origin": "gramgen:" + c["layer"]} for c in cases]
    hv = corpus.harvested()
    hv = hv if len(hv) <= cfg["hv"] else rng.sample(hv, cfg["hv"])
    cases += [{"src": h["src"], "mode": h["mode"], "origin": "harvest"} for h in hv]
    cases += [{"src": s, "mode": "exec", "origin": "xonsh_seed"} for s in corpus.xonsh_seeds()]
    cases += [{"src": s, "mode": "exec", "origin": "data:" + n} for n, s in corpus.data_files()]
    cases += xonsh_cases(run, run.tier)
    # every xonsh construct in the positions where Python allows a restricted expression only (patterns, mapping-pattern keys,
    # decorators, annotations, subscripts of targets ...): accepted or not, a returned tree has to be one compile() takes
    from . import c05

    texts = sorted({c["x"] for c in c05.generate(run, True) if c.get("x")})
    for x in texts:
        for tmpl in ("match v:\n    case %s:\n        pass\n", "match v:\n    case {%s: w}:\n        pass\n", "match v:\n    case [1, %s]:\n        pass\n",
                     "match v:\n    case K(%s):\n        pass\n", "match v:\n    case 1 | %s:\n        pass\n", "match v:\n    case (%s as y):\n        pass\n",
                     "@%s\ndef f(): pass\n", "def f(a: %s = 1) -> %s: pass\n", "x: %s = 1\n", "del y[%s]\n", "with c as y[%s]: pass\n", "for y[%s] in z: pass\n",
                     "class C(%s, metaclass=%s): pass\n", "type T = %s\n", "def f[T: %s](): pass\n", "global %s\n", "import %s\n", "lambda a=%s: a\n", "assert %s, %s\n",
                     "raise %s from %s\n", "[y for y in %s if %s]\n", "{**%s}\n", "f(*%s, **%s)\n", "y[%s:%s] = 1\n", "y = %s if %s else %s\n"):
            cases.append({"src": tmpl.replace("%s", x), "mode": "exec", "origin": "construct-in-restricted-position"})
    seen, uniq = set(), []
    for c in cases:
        if (c["src"], c["mode"]) not in seen:
            seen.add((c["src"], c["mode"]))
            uniq.append(c)
    cases = uniq
    res = run_ops("c04", [{"src": c["src"], "mode": c["mode"]} for c in cases], limit=20.0)
    traces = []
    for i, (c, r) in enumerate(zip(cases, res)):
        if not r.get("ok"):
            continue
        run.count_case(c["src"] + c["mode"], nontrivial=len(r["rows"]) > 2)
        traces.append({"id": i, "ll": r["ll"], "rows": r["rows"], "comp": r["compile"]})
        if len(traces) % 499 == 0:
            run.sample({"src": c["src"], "origin": c["origin"], "nodes": len(r["rows"]), "compile": r["compile"]})
    verdicts = validate_traces(run, "AstShape", traces, name="astshape", chunk=6000)
    for i, (clause, k) in sorted(verdicts.items()):
        if clause != "ok":
            c, r = cases[i], res[i]
            row = r["rows"][k - 1] if k - 1 < len(r["rows"]) else None
            run.violation({"src": c["src"], "mode": c["mode"], "origin": c["origin"]}, clause,
                          {"row": row, "compile": r["compile"], "compile_exc": r.get("compile_exc"), "written_out": r.get("written_out")})
    run.extra["inputs_total"] = len(cases)
    run.extra["accepted"] = len(traces)
    run.rule = ("accepted inputs of the Python program space (GramGen x spellings), corpus (all harvested inputs incl. xonsh, seeds, "
                "data files) and the xonsh generators of C05/C06/C07/C14; each tree validated by TLC against AstShape.tla + compile(); "
                "distinct = distinct (text, mode) with more than 2 nodes")
    run.assumptions += ["ASDL table generated from the ast module docstrings of CPython 3.12.1", "source lines split at \\n; columns bounded by the UTF-8 length of the line"]


def replay(rec: dict) -> int:
    c = rec["case"]
    r = run_ops("c04", [{"src": c["src"], "mode": c["mode"]}], limit=20.0)[0]
    print("source:", repr(c["src"]))
    if not r.get("ok"):
        print("not accepted now:", r)
        return 0
    run = Run("C04", "quick")
    v = validate_traces(run, "AstShape", [{"id": 0, "ll": r["ll"], "rows": r["rows"], "comp": r["compile"]}])
    print("verdict:", v[0], "compile:", r["compile"], r.get("compile_exc"))
    return 0 if v[0][0] == "ok" else 1
