"""C01 -- pure-Python sources parse to exactly CPython's AST (types, fields, spans).

spec -> code: TLC (GramGen over the pinned reference grammar, layer by layer) enumerates
sentences; the concretiser writes them as programs in several spellings and layouts; CPython
says which are valid.  code -> spec: for every valid program both parsers run and the recorded
pair of flattened trees is validated by TLC against AstEq.tla, which names the first differing
aspect (structure / field values / span).  The corpus (repository test data, harvested test
inputs, standard-library statements) and its layout variants go through the same validation.
"""
from __future__ import annotations

from .. import corpus, gram, pyprog
from ..core import Run
from ..pool import run_ops
from ..tlc import validate_traces

TIERS = {
    "quick": dict(variants=2, layouts=1, cap=1500, hv=400, stdlib=25),
    "thorough": dict(variants=3, layouts=2, cap=9000, hv=100000, stdlib=400),
}


def in_domain(src: str) -> bool:
    return not ("\x00" in src or "﻿" in src or corpus.has_fstring(src) or corpus.has_at_paren(src))


def corpus_cases(cfg) -> list[dict]:
    cases, seen = [], set()

    def add(src, mode, origin):
        if (src, mode) in seen or not in_domain(src):
            return
        seen.add((src, mode))
        cases.append({"src": src, "mode": mode, "layer": origin, "layout": "corpus", "variant": 0})

    for n, s in corpus.data_files():
        if n.endswith(".py"):
            add(s, "exec", "data:" + n)
            for lay, s2 in corpus.layouts(s):
                add(s2, "exec", f"data:{n}:{lay}")
    for i, s in enumerate(corpus.layout_seeds()):
        add(s, "exec", f"layseed{i}")
        for lay, s2 in corpus.layouts(s):
            add(s2, "exec", f"layseed{i}:{lay}")
    hv = corpus.harvested()
    step = max(1, len(hv) // cfg["hv"])
    for h in hv[::step]:
        add(h["src"], h["mode"], "harvest")
        for lay, s2 in corpus.layouts(h["src"])[:2]:
            add(s2, h["mode"], "harvest:" + lay)
    for n, s in corpus.stdlib_statements(cfg["stdlib"]):
        add(s, "exec", "stdlib")
    return cases


def judge(run: Run, cases: list[dict], res: list[dict], prop: str = "C01") -> None:
    traces = []
    for i, (c, r) in enumerate(zip(cases, res)):
        if not r["py_ok"]:
            continue  # not in the language: C02's business
        if r["impl_hang"]:
            run.violation({"src": c["src"], "mode": c["mode"], "layer": c["layer"]}, "implementation_hangs_on_valid_python")
            continue
        traces.append({"id": i, "aok": r["impl_ok"], "bok": True, "a": r.get("a", []), "b": r.get("b", []), "pos": True, "want": [], "spans": []})
    verdicts = validate_traces(run, "AstEq", traces, name="asteq")
    for i, (clause, k) in sorted(verdicts.items()):
        if clause == "ok":
            continue
        c, r = cases[i], res[i]
        run.violation({"src": c["src"], "mode": c["mode"], "layer": c["layer"], "layout": c["layout"], "entry": c.get("entry", "string")}, clause,
                      {"row": k, "diff": r.get("diff"), "impl_exc": r.get("impl_exc"), "eq_after_bytecols": r.get("eq_after_bytecols")})


def check(run: Run) -> None:
    cfg = TIERS[run.tier]
    g = gram.load_ref()
    sents = pyprog.sentences(run, run.tier, g)
    cases = pyprog.programs(run, run.tier, sents, cfg["variants"], cfg["layouts"], cap_per_layer=cfg["cap"])
    cases += corpus_cases(cfg)
    from . import c02

    cases += [{"src": t, "mode": "exec", "layer": "operand-matrix", "layout": "matrix", "variant": 0} for t in c02.operand_matrix() if in_domain(t)]
    cases += [{"src": t, "mode": "eval", "layer": "eval-matrix", "layout": "matrix", "variant": 0} for t in c02.eval_matrix() if in_domain(t) and "$" not in t and "p'" not in t]
    # the file entry point must build the same trees: every 7th module-mode program (seed-shifted) and every layout variant of the corpus
    from ..core import SEED

    twins = [dict(c, entry="file", layer=c["layer"] + ":file") for i, c in enumerate(cases)
             if c["mode"] == "exec" and ((i + SEED) % 7 == 0 or c.get("layout") == "corpus")]
    cases += twins
    res = run_ops("c01", [{"src": c["src"], "mode": c["mode"], "entry": c.get("entry", "string")} for c in cases], limit=20.0)
    valid = 0
    for c, r in zip(cases, res):
        if r["py_ok"]:
            valid += 1
            run.count_case(c["src"] + c["mode"] + c.get("entry", ""), nontrivial=len(c["src"]) > 3)
            if valid % 997 == 0:
                run.sample({"src": c["src"], "mode": c["mode"], "layer": c["layer"]})
    judge(run, cases, res)
    run.extra.update(pyprog.coverage(g, sents))
    run.extra["generated_programs"] = len(cases)
    run.extra["valid_per_cpython"] = valid
    run.extra["per_layer_sentences"] = {k: len(v) for k, v in sents.items()}
    run.rule = ("programs = GramGen sentences per layer (TLC, pinned reference grammar) x spellings x layouts + corpus (test data, "
                "harvested test inputs, stdlib statements) x layouts; evaluated = those CPython accepts; distinct = distinct "
                "(text, mode) with more than 3 characters")
    run.assumptions += ["CPython 3.12.1 ast.parse is the oracle (the property names it)",
                        "row digests are 24-bit CRCs per aspect (collision probability 6e-8 per compared row)"]


def replay(rec: dict) -> int:
    c = rec["case"]
    r = run_ops("c01", [{"src": c["src"], "mode": c["mode"], "entry": c.get("entry", "string")}], limit=20.0)[0]
    print("source:", repr(c["src"]), "mode:", c["mode"], "entry:", c.get("entry", "string"))
    print("cpython accepts:", r["py_ok"], " implementation accepts:", r["impl_ok"], r.get("impl_exc"))
    print("first difference:", r.get("diff"))
    return 0 if (not r["py_ok"]) or (r["impl_ok"] and r.get("a") == r.get("b")) else 1
