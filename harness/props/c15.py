"""C15 -- options only do what they say: verbose is inert, py_version gating is monotone.

spec -> code: Options.tla holds the gate table and predicts, for every program x verbose x
py_version grid point, "same as default" or "SyntaxError naming the required version"; TLC
enumerates the grid.  Programs: every combination of the gated features (except*, type
parameter lists on def / class, type statement) in several positions, plus a sample of the C01 /
C05 / C02 program spaces (valid and invalid, Python and xonsh).  The real parser runs every
grid point (stdout discarded); TLC validates the recorded outcomes against OptTrace.tla.
"""
from __future__ import annotations

import os
import random
import sys

from .. import corpus, gram, pyprog
from ..core import SEED, Run
from ..pool import run_ops
from ..tlc import read_export, run_tlc, validate_traces

GATED = [
    ("try:\n    pass\nexcept* E:\n    pass\n", 11), ("try:\n    a\nexcept* (A, B) as e:\n    b\nelse:\n    c\nfinally:\n    d\n", 11),
    ("def f[T](a: T) -> T: ...\n", 12), ("class C[T, *Ts, **P]: pass\n", 12), ("type X = int\n", 12), ("type Y[T: int] = list[T]\n", 12),
    ("async def g[T](): pass\n", 12), ("def f[T]():\n    try:\n        pass\n    except* E:\n        pass\n", 12),
    ("x = 1\ntype Z = int\ny = 2\n", 12), ("if a:\n    class K[T](B): pass\n", 12), ("def h():\n    try:\n        pass\n    except* E:\n        pass\n", 11),
    ("try:\n    pass\nexcept* E:\n    $(ls)\n", 11), ("type = 1\nprint(type)\n", 0), ("type(x)\n", 0), ("def f(type): return type[0]\n", 0),
    ("match = [1]\nmatch[0]\n", 0), ("try:\n    pass\nexcept E:\n    pass\n", 0), ("x = a[T]\n", 0), ("def f(a): pass\n", 0), ("class C(B[T]): pass\n", 0),
    ("type X = = 1\n", 0), ("def f[T](: pass\n", 0), ("try:\n    pass\nexcept* :\n    pass\n", 0),
    ("s = " + " + ".join(["a"] * 400) + "\n", 0), ("t = " + " ".join(["'x'"] * 400) + "\n", 0), ("u = a" + ".b" * 400 + "\n", 0),
    ("v = f(" + ", ".join(["a"] * 400) + ")\n", 0), ("w = a" + "[0]" * 300 + "\n", 0), ("x = " + " and ".join(["a"] * 400) + "\n", 0),
]
TIERS = {"quick": dict(py=120, xsh=40, bad=40), "thorough": dict(py=2500, xsh=400, bad=600)}


def check(run: Run) -> None:
    cfg = TIERS[run.tier]
    rng = random.Random(SEED + 15)
    progs = [{"src": s, "mode": "exec", "need": n, "origin": "gated"} for s, n in GATED]
    sents = pyprog.sentences(run, "quick", gram.load_ref(), only={"expr", "simple", "compound", "lambda", "comp", "patterns", "try", "funcdef", "classdef", "typeparams", "typealias"})
    cs = pyprog.programs(run, "quick", sents, 1, 0, cap_per_layer=400)
    gated_layers = {"typeparams", "typealias"}
    pyc = cs
    for c in rng.sample(pyc, min(cfg["py"] + cfg["bad"], len(pyc))):
        progs.append({"src": c["src"], "mode": c["mode"], "need": 0, "origin": "gramgen:" + c["layer"]})
    xs = [h for h in corpus.harvested() if any(t in h["src"] for t in "$!?`") and "type " not in h["src"] and "except*" not in h["src"] and "[T" not in h["src"]]
    for h in rng.sample(xs, min(cfg["xsh"], len(xs))):
        progs.append({"src": h["src"], "mode": h["mode"], "need": 0, "origin": "harvest"})
    # rejected programs without gated syntax: the error (message, span, text) must not depend on the options either
    BAD = ["if x\n    pass\n", "def f()\n    pass\n", "class C\n    pass\n", "for i in y\n    pass\n", "while a\n  b\n", "with a as b\n    c\n",
           "try\n    a\nfinally:\n    b\n", "x = (1,\n", "f(a b)\n", "a = = 1\n", "lambda x y: 0\n", "match x:\n    case 1\n        pass\n",
           "if a:\npass\n", "  x = 1\n", "x = 1 +\n", "print(a, b=1, c)\n", "def f(a=1, b): pass\n", "x = [i for i in]\n", "import\n", "from . import\n",
           "$(ls\n", "f!(a, b\n", "with! x\n    y\n", "x = ${\n", "elif a:\n    b\n", "else:\n    b\n", "return )\n", "a ? ? b\n", "1 = x\n", "del f()\n",
           "for 1 in y: pass\n", "with a as 1: pass\n", "x = yield = 1\n", "async x\n", "f(**a, *b)\n", "class C(x for x in y): pass\n", "a: int: int\n",
           "if a:\n    b\n  c\n", "if a:\n\tb\n        c\n", "x = 'a\n", "x = f'{a'\n", "x = f'{a!z}'\n", "x = 0777\n", "x = 1__0\n", 'x = (\n"a" "b\n']
    for s in BAD + corpus.invalid_seeds():
        progs.append({"src": s, "mode": "exec", "need": 0, "origin": "rejected"})
    KINDS = ["async def f():\n    await g()\n", "async def f(a, /, b, *c, d=1, **e) -> int:\n    async with x as y:\n        pass\n    async for i in z:\n        pass\n",
             "@d\nasync def f(): return [i async for i in y]\n", "def f(a, /, b, *c, d=1, **e) -> int:\n    return a\n", "@d(1)\nclass C(B, metaclass=M):\n    x: int = 1\n",
             "class C:\n    async def m(self):\n        yield 1\n", "with a as b, c as d:\n    pass\n", "with (a as b, c as d):\n    pass\n",
             "try:\n    a\nexcept E as e:\n    b\nelse:\n    c\nfinally:\n    d\n", "match p:\n    case [1, *r] if r:\n        pass\n    case {'k': v, **kw}:\n        pass\n    case C(a, b=1) | None:\n        pass\n",
             "for i, (j, k) in y:\n    continue\nelse:\n    pass\n", "while a:\n    break\nelse:\n    pass\n", "global g\nnonlocal n\n", "import a.b as c, d\nfrom .e import (f as g, h)\n",
             "lambda a, /, b=1, *c, d, **e: (yield)\n", "x = [i for i in y if i async for j in k]\n", "del a, b[0], c.d\n", "assert a, 'm'\nraise E from c\n", "x: int\ny: list[int] = []\n(z): int = 1\n",
             "a = b = c\na += 1\na @= b\na //= 2\n", "print(*a, **b, c=1)\n", "x = a if b else c\ny = not a or b and c\nz = a < b <= c != d is not e not in f\n", "w = (yield from g)\nv = await h\n",
             "s = a[1:2, ::3, ...]\nt = a[b:c]\nu = *a, *b\n", "d = {**a, 'k': 1, **b}\ne = {*a, 1}\nf = {k: v for k, v in z}\n", "n = (m := 1)\n", "$(ls -l) if $HOME else ![echo @(x)]\n",
             "with! c:\n    body\n", "f!(a b)\n", "p = p'/tmp' / pf'{x}'\n", "g = `a.*` + g`*.py`\n", "x = a?\ny = b??\n", "a && b || c\n", "$X = 1\ndel $X\n${'Y'} = 2\n"]
    for s in KINDS:
        progs.append({"src": s, "mode": "exec", "need": 0, "origin": "kinds"})
    for d in range(12, 44):
        for o, c_ in (("(", ")"), ("[", "]"), ("f(", ")"), ("{1: ", "}")):
            progs.append({"src": "x = " + o * d + "1" + c_ * d + "\n", "mode": "exec", "need": 0, "origin": "depth-band"})
    # need / validity per program: from CPython's tree when it parses, from the text otherwise
    import ast as _ast

    base = run_ops("c15", [{"src": p["src"], "mode": p["mode"], "points": [{"verbose": False, "v": 0}]} for p in progs], limit=60.0, batch=20)
    for p, b in zip(progs, base):
        p["valid"] = b["points"][0]["kind"] == "tree"
        need = 0
        try:
            t = _ast.parse(p["src"], mode=p["mode"])
            for n in _ast.walk(t):
                if isinstance(n, _ast.TryStar):
                    need = max(need, 11)
                if isinstance(n, _ast.TypeAlias) or getattr(n, "type_params", None):
                    need = max(need, 12)
        except (SyntaxError, ValueError):
            txt = p["src"]
            if "except*" in txt or "except *" in txt:
                need = max(need, 11)
            if "[T" in txt or any(ln.lstrip().startswith("type ") for ln in txt.split("\n")):
                need = max(need, 12)
        p["need"] = max(need, p["need"]) if p["origin"] == "gated" and p["valid"] else need
    f = os.path.join(run.dir, "grid.ndjson")
    run_tlc(run, "Options", "INIT Init\nNEXT Next\nINVARIANT Export\nCHECK_DEADLOCK FALSE\n", env={"OUT": f}, name="grid",
            consts={"Need": [p["need"] for p in progs], "Valid": [p["valid"] for p in progs], "Running": sys.version_info[1]})
    grid = read_export(f)
    os.remove(f)
    by_p: dict[int, list] = {}
    for g in sorted(grid, key=lambda g: (g["p"], g["verbose"], g["v"])):
        by_p.setdefault(g["p"], []).append(g)
    cases = []
    for i, p in enumerate(progs, 1):
        pts = [{"verbose": False, "v": 0}] + [{"verbose": g["verbose"], "v": g["v"]} for g in by_p[i]]
        cases.append({"src": p["src"], "mode": p["mode"], "points": pts})
    res = run_ops("c15", cases, limit=60.0, batch=4)
    traces = []
    for i, (p, r) in enumerate(zip(progs, res)):
        base = r["points"][0]
        pts = []
        for g, o in zip(by_p[i + 1], r["points"][1:]):
            gate_ok = o["kind"] == "exc" and o.get("syntaxerror") and f"(3, {g['need']})" in (o.get("msg") or "")
            pts.append({"expect": g["expect"], "d": o["d"], "gate_ok": bool(gate_ok), "is_exc": o["kind"] == "exc", "verbose": g["verbose"], "v": g["v"]})
            run.count_case(f"{i}:{g['verbose']}:{g['v']}")
        traces.append({"id": i, "base": base["d"], "pts": pts})
        if i % 37 == 0:
            run.sample({"src": p["src"], "need": p["need"], "default": base["kind"], "grid_points": len(pts)})
    verdicts = validate_traces(run, "OptTrace", traces, name="options")
    for i, (clause, k) in sorted(verdicts.items()):
        if clause != "ok":
            p = progs[i]
            pt = traces[i]["pts"][k - 1]
            run.violation({"src": p["src"], "mode": p["mode"], "need": p["need"], "origin": p["origin"]}, clause,
                          {"point": pt, "default": res[i]["points"][0], "observed": res[i]["points"][k]})
    run.exhaustive = True
    # the two-pass strategy (TwoPass.tla): model-checked, then every program's executions (verbose off / on) validated by TLC
    from ..tlc import validate_traces as _vt

    st = run_tlc(run, "TwoPass", "SPECIFICATION Spec\nINVARIANT NoDiagnosticsInFirstPass\nINVARIANT TreeOnlyFromFirstPass\nINVARIANT ErrorOnlyAfterSecondPass\n"
                 "INVARIANT AtMostTwoPasses\nCHECK_DEADLOCK FALSE\n", name="twopass", consts={"MaxCalls": 6}, expect_violation=True)
    run.extra["model_TwoPass"] = "violated: " + str(st["violated"]) if st["violated"] else "holds"
    pres = run_ops("c15_pass", [{"src": p["src"], "mode": p["mode"]} for p in progs], limit=60.0, batch=20)
    ptraces = []
    for i, (p, r) in enumerate(zip(progs, pres)):
        for pt in r["points"]:
            if pt["outcome"] != "hang":
                ptraces.append(dict(pt, id=len(ptraces), prog=i))
    pver = _vt(run, "PassTrace", ptraces, name="passtrace")
    drift = [(ptraces[i], cl) for i, (cl, _k) in sorted(pver.items()) if cl != "ok"]
    run.extra["twopass_executions_validated"] = len(ptraces)
    if drift:
        run.drift["TwoPass.tla laws vs recorded executions"] = len(drift)
        run.extra["twopass_drift_examples"] = [{"src": progs[t["prog"]]["src"][:120], "clause": cl, "point": {k: t[k] for k in ("verbose", "outcome", "passes", "inv_off", "inv_first", "inv_second", "inv_unguarded")}} for t, cl in drift[:5]]
    run.rule = "program x verbose {F,T} x py_version {None, (3,8)..(3,13)} grid enumerated by TLC (Options.tla); distinct = grid points"
    run.assumptions += ["stdout of verbose runs is discarded", "running interpreter = CPython 3.12 caps py_version (min(py_version, sys.version_info))"]


def replay(rec: dict) -> int:
    c = rec["case"]
    pt = rec["detail"]["point"]
    r = run_ops("c15", [{"src": c["src"], "mode": c["mode"], "points": [{"verbose": False, "v": 0}, {"verbose": pt["verbose"], "v": pt["v"]}]}], limit=60.0)[0]
    print("source:", repr(c["src"]), "point:", pt, "\ndefault:", r["points"][0], "\nobserved:", r["points"][1])
    if pt["expect"] == "same":
        return 0 if r["points"][0]["d"] == r["points"][1]["d"] else 1
    return 0 if r["points"][1]["kind"] == "exc" else 1
