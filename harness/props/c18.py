"""C18 -- parsing work grows at most linearly with input size and nesting depth.

spec -> code: Work.tla builds the input families (30 nesting constructors, alone and pairwise
alternating, as expressions and as case patterns; 30 chains; each valid and with 5 breakers)
at doubling sizes; TLC enumerates family x breaker x size.  code -> spec: every program is
parsed with a counting Tokenizer subclass passed to the public parser constructor; the recorded
series (size, tokens, getnext+peek+reset calls) of every family is validated by TLC against
WorkLaw.tla (each doubling at most doubles the work up to Eps and C; work per token <= K).
"""
from __future__ import annotations

import collections
import os

from ..core import Run
from ..pool import run_ops
from ..tlc import read_export, run_tlc, validate_traces

LEVEL = "model_checking"
LAW = dict(EpsPct=30, C=4000, K=2500)
ALLW, ALLC, ALLB = set(range(1, 34)), set(range(1, 34)), set(range(1, 14))
NOB = dict(BlockUse=set(), Prefixes={0})
TIERS = {
    "quick": [dict(Sizes={4, 8, 16}, WrapUse=ALLW, ChainUse=ALLC, BreakUse={1, 2, 3, 4, 5, 6, 7}, Pairs=False, ChainScale=4, PatternWraps={1, 2, 4, 6}, BlockUse=ALLB, Prefixes={0}),
              # the same constructs after a long flat statement list: what precedes a construct must not change its cost
              dict(Sizes={4, 8, 16}, WrapUse={1, 6, 11}, ChainUse=set(), BreakUse={1}, Pairs=False, ChainScale=1, PatternWraps=set(), BlockUse={1, 7, 9, 11}, Prefixes={3000}),
              # deep nesting at the interpreter's default recursion limit, through parse_string (entry = "default_limit")
              dict(Sizes={50, 100, 200, 400}, WrapUse={1, 2, 4}, ChainUse=set(), BreakUse={1}, Pairs=False, ChainScale=1, PatternWraps=set(), BlockUse={1}, Prefixes={0}, _reclimit=1000),
              # the same valid constructs with verbose tracing on (the option must not change how much is parsed)
              dict(Sizes={2, 4, 8}, WrapUse={1, 2, 6, 10, 20}, ChainUse={1, 6}, BreakUse={1}, Pairs=False, ChainScale=2, PatternWraps=set(), BlockUse={1}, Prefixes={0}, _verbose=True)],
    "thorough": [dict(Sizes={4, 8, 16, 32}, WrapUse=ALLW, ChainUse=ALLC, BreakUse={1, 2, 3, 4, 5, 6, 7}, Pairs=False, ChainScale=8, PatternWraps={1, 2, 4, 6}, BlockUse=ALLB, Prefixes={0}),
                 dict(Sizes={3, 6, 12}, WrapUse={1, 2, 4, 5, 6, 7, 8, 9, 10, 11, 12, 15, 20, 25, 28}, ChainUse=set(), BreakUse={1, 3, 5, 6, 7}, Pairs=True, ChainScale=1, PatternWraps={1, 2, 4, 6}, **NOB),
                 dict(Sizes={4, 8, 16}, WrapUse={1, 2, 4, 6, 8, 11}, ChainUse=set(), BreakUse={1, 5}, Pairs=False, ChainScale=1, PatternWraps=set(), BlockUse=ALLB, Prefixes={3000, 6000}),
                 dict(Sizes={50, 100, 200, 400}, WrapUse={1, 2, 3, 4, 5, 6, 7, 11}, ChainUse=set(), BreakUse={1, 6}, Pairs=False, ChainScale=1, PatternWraps=set(), BlockUse={1, 7}, Prefixes={0}, _reclimit=1000),
                 dict(Sizes={2, 4, 8, 16}, WrapUse=ALLW, ChainUse={1, 5, 6, 11}, BreakUse={1}, Pairs=False, ChainScale=2, PatternWraps={1, 2}, BlockUse=ALLB, Prefixes={0}, _verbose=True)],
}


def check(run: Run) -> None:
    fam: dict = collections.defaultdict(dict)
    limit_of = {}
    for i, c in enumerate(TIERS[run.tier]):
        c = dict(c)
        reclimit = c.pop("_reclimit", None)
        verbose = c.pop("_verbose", False)
        f = os.path.join(run.dir, f"work{i}.ndjson")
        run_tlc(run, "Work", "INIT Init\nNEXT Next\nINVARIANT Export\nCHECK_DEADLOCK FALSE\n", env={"OUT": f}, name=f"work{i}", consts=c)
        for r in read_export(f):
            k = (r["k"], ("default-recursion-limit:" if reclimit else "verbose:" if verbose else "") + r["fam"], r["br"])
            fam[k][r["n"]] = r["src"]
            limit_of[k] = (reclimit, verbose)
        os.remove(f)
    keys = sorted(fam)
    cases = [{"srcs": [fam[k][n] for n in sorted(fam[k])], "reclimit": limit_of[k][0], "verbose": limit_of[k][1]} for k in keys]
    res = run_ops("c18", cases, limit=25.0, batch=4)
    traces = []
    for i, (k, r) in enumerate(zip(keys, res)):
        ns = sorted(fam[k])
        pts = [[n, max(1, p["tokens"]), min(p["work"], 500_000_000)] for n, p in zip(ns, r["series"])]
        exploded = len(r["series"]) < len(ns) or any(p["outcome"] == "timeout" for p in r["series"])
        if exploded:
            # the series was cut because the work budget / time limit was exceeded: record that as an unbounded point
            pts.append([ns[len(pts)] if len(pts) < len(ns) else ns[-1] * 2, 1, 2_000_000_000])
        run.count_case(str(k))
        traces.append({"id": i, "pts": pts, "outcomes": [p["outcome"] for p in r["series"]]})
        if i % 97 == 0:
            run.sample({"family": k, "series": pts, "text_at_smallest_size": fam[k][ns[0]][:120]})
    cfg = "CONSTANTS\n EpsPct = %d\n C = %d\n K = %d\n" % (LAW["EpsPct"], LAW["C"], LAW["K"])
    verdicts = validate_traces(run, "WorkLaw", traces, cfg_extra=cfg, name="worklaw")
    for i, (clause, kk) in sorted(verdicts.items()):
        if clause != "ok":
            k = keys[i]
            run.violation({"family": list(k), "smallest": fam[k][sorted(fam[k])[0]], "outcomes": traces[i]["outcomes"],
                           "sizes": sorted(fam[k]), "srcs": cases[i]["srcs"], "reclimit": cases[i]["reclimit"], "verbose": cases[i]["verbose"]}, clause,
                          {"series": traces[i]["pts"], "step": kk}, key="fam:" + "/".join(k))
    run.extra["families"] = len(keys)
    run.extra["law"] = LAW
    run.rule = ("families = nesting constructors (alone, pairwise alternating in thorough, as expressions and as case patterns) and chains, each valid "
                "and with 5 breakers, at doubling sizes (Work.tla); distinct = (family, breaker)")
    run.assumptions += ["law constants fixed from the baseline with head-room: a doubling may cost 2.6x + 4000 calls, at most 2500 calls per token",
                        "'no input family' is approximated by this composition grammar of families, not proved"]


def replay(rec: dict) -> int:
    c = rec["case"]
    if "srcs" not in c:
        print("old record without the programs; re-run: bin/check C18 quick   (family:", c["family"], ")")
        return 1
    r = run_ops("c18", [{"srcs": c["srcs"], "reclimit": c.get("reclimit"), "verbose": c.get("verbose", False)}], limit=25.0)[0]
    ns = c["sizes"]
    pts = [[n, max(1, p["tokens"]), min(p["work"], 500_000_000)] for n, p in zip(ns, r["series"])]
    if len(r["series"]) < len(ns) or any(p["outcome"] == "timeout" for p in r["series"]):
        pts.append([ns[len(pts)] if len(pts) < len(ns) else ns[-1] * 2, 1, 2_000_000_000])
    print("family:", c["family"], "\nseries (size, tokens, work):", pts, "\noutcomes:", [p["outcome"] for p in r["series"]])
    run = Run("C18", "quick")
    cfg = "CONSTANTS\n EpsPct = %d\n C = %d\n K = %d\n" % (LAW["EpsPct"], LAW["C"], LAW["K"])
    v = validate_traces(run, "WorkLaw", [{"id": 0, "pts": pts}], cfg_extra=cfg, name="worklaw-replay")
    print("verdict:", v[0])
    return 0 if v[0][0] == "ok" else 1
