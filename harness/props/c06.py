"""C06 -- subprocess arguments follow source word boundaries and map to the right runtime call.

spec -> code: Subproc.tla enumerates command lines (pieces x gaps x bracket forms) and computes
with its own word-splitting model the expected argument grouping and runtime function.  The
real parser parses each command; its Call node is projected onto word descriptors and the pair
(projection, expectation) is validated by TLC against WordSplit.tla.
"""
from __future__ import annotations

import os

from ..core import Run
from ..pool import run_ops
from ..tlc import read_export, run_tlc, validate_traces

ALL = set(range(1, 66))
CORE10 = {1, 3, 6, 19, 20, 33, 51, 53, 56, 57}
CORE = {1, 2, 3, 6, 7, 14, 19, 20, 23, 33, 34, 51, 53, 56, 57, 60}
TIERS = {
    "quick": [dict(use=ALL, gaps=["", " "], n=1, forms={1, 2, 3, 4}), dict(use=ALL, gaps=["", " "], n=2, forms={1}),
              dict(use=CORE10, gaps=["", "  \t"], n=3, forms={2, 4}),
              dict(use=CORE10 | {2, 14, 16}, gaps=["\n", "\n   ", "\n    ", "\n     ", "\n      ", " \n"], n=2, forms={1, 4})],
    "thorough": [dict(use=ALL, gaps=["", " ", "\t "], n=2, forms={1, 2, 3, 4}), dict(use=CORE | {4, 5, 8, 10, 39, 49, 52, 60, 61, 62, 63, 65}, gaps=["", " "], n=3, forms={1, 3}),
                 dict(use=CORE10, gaps=["", " "], n=4, forms={2, 4})],
}


def generate(run: Run, tier: str) -> list[dict]:
    out, seen = [], set()
    for i, c in enumerate(TIERS[tier]):
        f = os.path.join(run.dir, f"subproc{i}.ndjson")
        run_tlc(run, "Subproc", "INIT Init\nNEXT Next\nINVARIANT Export\nCHECK_DEADLOCK FALSE\n", env={"OUT": f}, name=f"subproc{i}",
                consts={"Use": set(c["use"]), "Gaps": set(c["gaps"]), "MaxPieces": c["n"], "FormsUsed": set(c["forms"])})
        for case in read_export(f):
            if case["src"] not in seen:
                seen.add(case["src"])
                out.append(case)
        os.remove(f)
    out.sort(key=lambda c: c["src"])
    return out


def cases_for_c04(run: Run, tier: str) -> list[dict]:
    cs = generate(run, "quick")
    return [{"src": c["src"], "mode": "eval", "origin": "c06"} for c in cs[:: (7 if tier == "quick" else 1)]]


def check(run: Run) -> None:
    cases = generate(run, run.tier)
    res = run_ops("c06", [{"src": c["src"]} for c in cases], limit=20.0)
    traces = []
    for i, (c, r) in enumerate(zip(cases, res)):
        run.count_case(c["src"], nontrivial=c["n"] > 1)
        if i % 1999 == 0:
            run.sample({"src": c["src"], "expected_func": c["func"], "expected_args": c["args"]})
        if r["impl_hang"]:
            run.violation({"src": c["src"]}, "implementation_hangs")
            continue
        ok = r["impl_ok"] and r.get("is_call", False)
        traces.append({"id": i, "ok": ok, "func": r.get("func", ""), "wfunc": c["func"], "after": "ok", "got": r.get("args", []), "want": c["args"]})
    verdicts = validate_traces(run, "WordSplit", traces, name="wordsplit")
    for i, (clause, k) in sorted(verdicts.items()):
        if clause != "ok":
            c, r = cases[i], res[i]
            run.violation({"src": c["src"]}, clause, {"arg": k, "want": c["args"], "got": r.get("args"), "func": r.get("func"), "impl_exc": r.get("impl_exc")})
    run.exhaustive = True
    run.rule = "command lines = all piece sequences up to the bound x gap assignments x bracket forms (Subproc.tla); non-trivial = more than one piece"


def replay(rec: dict) -> int:
    src = rec["case"]["src"]
    r = run_ops("c06", [{"src": src}], limit=20.0)[0]
    print("source:", repr(src), "\nprojection:", r, "\nexpected:", rec["detail"].get("want"))
    return 0 if r.get("args") == rec["detail"].get("want") else 1
