"""C09 -- the tokenizer agrees with CPython's tokenizer on Python sources.

Inputs: TLC-enumerated abstract strings over the Python sub-alphabets (numbers, operator runs,
string prefix/quote/body classes, indentation patterns with spaces/tabs/form feeds, comments
and continuations), LexGen lexeme sequences, the token-level layouts of the C01 program space,
and the corpus.  Domain = CPython's tokenize accepts the text without ERRORTOKEN and it holds no
xonsh-only lexeme ('!' alone, '||', '&&', '@(', '>&', '??', p-strings) nor an f-string (C10).
Both token streams are recorded, reduced by the documented differences and validated by TLC
against TokAgree.tla.
"""
from __future__ import annotations

import random

from .. import alpha, corpus, gens, gram, pyprog
from ..core import SEED, Run
from ..pool import run_ops
from ..tlc import validate_traces

TIERS = {
    "quick": dict(char=[("num", 4), ("pyop", 3), ("str", 4), ("indent", 5), ("py", 3)], variants=1, cap=250, corpus_cap=150),
    "thorough": dict(char=[("num", 5), ("pyop", 4), ("str", 5), ("indent", 6), ("py", 4)], variants=1, cap=3000, corpus_cap=100000),
}
alpha.SUB["pyop"] = list("@&|<>=:.()[]{}*/-+%^~,;!") + ["a", "1", "sp"]


def inputs(run: Run, cfg: dict, want_fstrings: bool = False) -> list[dict]:
    rng = random.Random(SEED + 9)
    cases, seen = [], set()

    def add(src, origin):
        if src not in seen:
            seen.add(src)
            cases.append({"src": src, "origin": origin})

    for sub, n in cfg["char"]:
        for a in gens.chargen(run, sub, n):
            add(alpha.concretise(a), f"chargen:{sub}")
            for v in range(1, cfg["variants"]):
                add(alpha.concretise(a, rng, v), f"chargen:{sub}:v{v}")
    for c in gens.lexgen(run, 3 if run.tier == "quick" else 4):
        add(c["src"], "lexgen")
    for c in gens.indent(run, light=True):
        add(c["src"], "indent.tla")
    # nesting boundaries: CPython's tokenizer takes 200 open brackets and refuses the 201st (it decides the domain here as well)
    for d in (50, 51, 99, 100, 101, 199, 200, 201):
        for o, c_ in (("(", ")"), ("[", "]"), ("{", "}")):
            add("x = " + o * d + "1" + c_ * d + "\n", "nesting")
        add("x = " + "([{" * (d // 3) + "(" * (d % 3) + "1" + ")" * (d % 3) + "}])" * (d // 3) + "\n", "nesting")
        add("x = " + "(\n" * d + "1" + "\n)" * d + "\n", "nesting")
    sents = pyprog.sentences(run, run.tier, gram.load_ref(), only={"expr", "simple", "compound", "lambda", "params", "imports", "patterns", "try", "displays"})
    for c in pyprog.programs(run, run.tier, sents, 2, 2, cap_per_layer=cfg["cap"]):
        add(c["src"], "program:" + c["layout"])
    for name, src in corpus.programs(cap=cfg["corpus_cap"]):
        add(src, "corpus")
        for lay, s2 in corpus.layouts(src):
            add(s2, "corpus:" + lay)
    return cases


def judge(run: Run, cases, res, fstrings: bool, prop: str):
    traces = []
    for i, (c, r) in enumerate(zip(cases, res)):
        if not r["py_ok"]:
            run.note("rejected_by_cpython_tokenize")
            continue
        if r["domain"]:
            run.note("outside_domain_" + r["domain"])
            continue
        if r["has_fstring"] != fstrings:
            run.note("fstring_left_to_C10" if not fstrings else "no_fstring")
            continue
        run.count_case(c["src"], nontrivial=len(c["src"]) > 1)
        if len(traces) % 3001 == 0:
            run.sample({"src": c["src"], "origin": c["origin"]})
        if r["impl_hang"]:
            run.violation({"src": c["src"], "origin": c["origin"]}, "implementation_hangs")
            continue
        if not r["impl_ok"]:
            run.violation({"src": c["src"], "origin": c["origin"]}, "implementation_rejects_what_cpython_tokenizes", {"impl_exc": r["impl_exc"]})
            continue
        traces.append({"id": i, "a": r["a"], "b": r["b"]})
    verdicts = validate_traces(run, "TokAgree", traces, name="tokagree")
    for i, (clause, k) in sorted(verdicts.items()):
        if clause != "ok":
            c, r = cases[i], res[i]
            run.violation({"src": c["src"], "origin": c["origin"]}, clause, {"token": k, "diff": r.get("diff")})


def check(run: Run) -> None:
    cfg = TIERS[run.tier]
    cases = inputs(run, cfg)
    CH = 120000   # observations (two token streams per text) are judged chunk by chunk: memory stays bounded
    for lo in range(0, len(cases), CH):
        part = cases[lo:lo + CH]
        res = run_ops("c09", [{"src": c["src"]} for c in part], limit=20.0, batch=100)
        judge(run, part, res, False, "C09")
        del res
    run.rule = ("TLC-enumerated abstract strings per Python sub-alphabet, LexGen sequences, C01 programs x layouts, corpus x layouts; "
                "evaluated = texts in the domain (CPython tokenizes, no xonsh-only lexeme, no f-string); distinct = distinct texts")
    run.assumptions += ["CPython 3.12.1 tokenize.generate_tokens is the oracle", "token texts compared through 24-bit CRCs"]


def replay(rec: dict) -> int:
    src = rec["case"]["src"]
    r = run_ops("c09", [{"src": src}], limit=20.0)[0]
    print("source:", repr(src), "\n", {k: v for k, v in r.items() if k not in ("a", "b")})
    return 0 if (not r["py_ok"]) or r.get("domain") or (r.get("impl_ok") and r.get("a") == r.get("b")) else 1
