"""C16 -- shipped generated parsers are exactly what their grammars generate.

Design level: GenPipe.tla models the generator (to-do queue, helper counter, de-duplication by
structure); TLC checks OneMethodPerRule / HelperNamesMonotone / DedupIsByStructure over small
abstract grammars.  Implementation level: the documented generation steps
(`python tasks/generator.py -o <tmp>` and `python -m pegen pegen/metagrammar.gram -o <tmp>`)
are run from the working tree under several PYTHONHASHSEEDs, twice each, and additionally twice
within ONE interpreter; every run is recorded as a trace (methods in emission order with
normalised-body digests of the generated and of the shipped module, keyword tables) and
validated by TLC against GenTrace.tla.
"""
from __future__ import annotations

import ast
import os
import re
import subprocess
import zlib

from ..core import PY, REPO, Run
from ..tlc import run_tlc, validate_traces

SEEDS = {"quick": ["0", "1", "12345"], "thorough": ["0", "1", "2", "3", "42", "12345", "random", "random"]}


def _norm(fn: ast.FunctionDef) -> int:
    fn = ast.parse(ast.unparse(fn)).body[0]  # drops comments / formatting
    fn.returns = None
    for a in fn.args.args + fn.args.kwonlyargs:
        a.annotation = None
    if fn.body and isinstance(fn.body[0], ast.Expr) and isinstance(fn.body[0].value, ast.Constant) and isinstance(fn.body[0].value.value, str):
        fn.body = fn.body[1:] or [ast.Pass()]
    return zlib.crc32(ast.dump(fn).encode()) & 0xFFFFFF or 1


def module_info(path: str) -> dict:
    tree = ast.parse(open(path, encoding="utf-8").read())
    classes = [n for n in tree.body if isinstance(n, ast.ClassDef)]
    cls = classes[-1]
    methods, tables = [], {}
    for n in cls.body:
        if isinstance(n, ast.FunctionDef):
            methods.append((n.name, _norm(n)))
        elif isinstance(n, ast.Assign) and isinstance(n.targets[0], ast.Name) and n.targets[0].id in ("KEYWORDS", "SOFT_KEYWORDS"):
            tables[n.targets[0].id] = ast.literal_eval(n.value)
    return {"methods": methods, "tables": tables}


PAIRS = {
    "xonsh": dict(cmd=lambda out: [PY, "tasks/generator.py", "-o", out], shipped="peg_parser/parser.py"),
    "meta": dict(cmd=lambda out: [PY, "-m", "pegen", "-q", "pegen/metagrammar.gram", "-o", out], shipped="pegen/grammar_parser.py"),
}
TWICE = ("import sys; sys.path.insert(0, '.'); from pathlib import Path\n"
         "from tasks import generator\n"
         "generator.main(Path(sys.argv[1]), None); generator.main(Path(sys.argv[2]), None)\n")
TWICE_META = ("import sys; sys.path.insert(0, '.')\n"
              "from pegen.build import build_python_parser_and_generator as b\n"
              "b('pegen/metagrammar.gram', sys.argv[1]); b('pegen/metagrammar.gram', sys.argv[2])\n")


def generate(run: Run, pair: str, seed: str, tag: str) -> str | None:
    out = os.path.join(run.dir, f"gen_{pair}_{tag}.py")
    env = dict(os.environ, PYTHONHASHSEED=seed, PYTHONPATH=REPO, PYTHONDONTWRITEBYTECODE="1")
    p = subprocess.run(PAIRS[pair]["cmd"](out), cwd=REPO, env=env, capture_output=True, text=True, timeout=600)
    if p.returncode != 0 or not os.path.exists(out):
        run.extra.setdefault("generation_failures", []).append({"pair": pair, "seed": seed, "stderr": p.stderr[-500:]})
        return None
    return out


def generate_twice(run: Run, pair: str) -> list[str]:
    a, b = os.path.join(run.dir, f"gen_{pair}_twice1.py"), os.path.join(run.dir, f"gen_{pair}_twice2.py")
    env = dict(os.environ, PYTHONHASHSEED="0", PYTHONPATH=REPO, PYTHONDONTWRITEBYTECODE="1")
    subprocess.run([PY, "-c", TWICE if pair == "xonsh" else TWICE_META, a, b], cwd=REPO, env=env, capture_output=True, text=True, timeout=900)
    return [x for x in (a, b) if os.path.exists(x)]


def trace(tid: int, gen_path: str, shipped: dict, ref: list[int] | None) -> dict:
    g = module_info(gen_path)
    sm = dict(shipped["methods"])
    methods = []
    for name, d in g["methods"]:
        m = re.fullmatch(r"_(?:tmp|loop0|loop1|gather)_(\d+)", name)
        methods.append([name, d, sm.get(name, 0), int(m.group(1)) if m else 0])
    names = {n for n, _ in g["methods"]}
    return {"id": tid, "methods": methods, "ref": ref if ref is not None else [m[1] for m in methods],
            "kw_equal": g["tables"] == shipped["tables"], "extra_shipped": len([n for n in sm if n not in names])}


def check(run: Run) -> None:
    # design level
    for i, (n, shapes, subs) in enumerate([(2, {"s1", "s2"}, [["s1", "s2", "s1"], ["s2", "s1"]]), (3, {"s1", "s2", "s3"}, [["s1"], ["s1", "s2"], ["s3", "s3", "s2"]]),
                                           (3, {"s1"}, [["s1", "s1"], [], ["s1"]])]):
        run_tlc(run, "GenPipe", "INIT Init\nNEXT Next\nINVARIANT OneMethodPerRule\nINVARIANT HelperNamesMonotone\nINVARIANT DedupIsByStructure\nINVARIANT AllRulesEmitted\nCHECK_DEADLOCK FALSE\n",
                name=f"genpipe{i}", consts={"NRules": n, "Shapes": shapes, "Subs": subs})
    # implementation level
    traces, meta = [], []
    for pair in PAIRS:
        shipped = module_info(os.path.join(REPO, PAIRS[pair]["shipped"]))
        ref = None
        runs = []
        for seed in SEEDS[run.tier]:
            for rep in (1, 2):
                runs.append((f"seed{seed}_{rep}", generate(run, pair, seed, f"{seed}_{rep}_{len(runs)}")))
        for j, pth in enumerate(generate_twice(run, pair)):
            runs.append((f"same_interpreter_run{j + 1}", pth))
        for label, pth in runs:
            run.count_case(pair + label)
            if pth is None:
                run.violation({"pair": pair, "run": label}, "generation_step_fails", run.extra.get("generation_failures", [])[-1:])
                continue
            t = trace(len(traces), pth, shipped, ref)
            if ref is None:
                ref = [m[1] for m in t["methods"]]
            traces.append(t)
            meta.append({"pair": pair, "run": label, "methods": len(t["methods"])})
        if len([1 for l, p in runs if l.startswith("same_interpreter")]) < 2:
            run.violation({"pair": pair, "run": "same_interpreter"}, "generation_twice_in_one_interpreter_fails")
    run.samples = meta[:6]
    verdicts = validate_traces(run, "GenTrace", traces, name="gentrace")
    for i, (clause, k) in sorted(verdicts.items()):
        if clause != "ok":
            m = traces[i]["methods"][k - 1] if k - 1 < len(traces[i]["methods"]) else None
            run.violation(meta[i], clause, {"method": m}, key=f"{meta[i]['pair']}:{clause}:{m[0] if m else ''}")
    run.exhaustive = True
    run.rule = "the two shipped (grammar, module) pairs x hash seeds x 2 repetitions + two generations in one interpreter; every method of every run compared; distinct = runs"
    run.assumptions += ["normalisation: ast.unparse round trip, return/argument annotations and docstrings dropped, keyword tables compared as values, imports ignored"]


def replay(rec: dict) -> int:
    print("re-run: bin/check C16 quick   (case:", rec["case"], rec["detail"], ")")
    return 1
