"""Binding self-test (not a property check):  bin/check SELFTEST quick

For every trace specification: a trace recorded from the real code must be accepted, and the same
trace with ONE recorded field corrupted must be rejected with the clause that names that field.
This demonstrates that the verdicts come from TLC evaluating the law on what the code did.
"""
from __future__ import annotations

import copy

from ..core import MachineryError, Run
from ..pool import run_ops
from ..tlc import validate_traces
from . import c08

LEVEL = "other"


def expect(run, spec, good, bad, clause, **kw):
    g, b = copy.deepcopy(good), copy.deepcopy(bad)
    g["id"], b["id"] = 0, 1
    v = validate_traces(run, spec, [g, b], name="self_" + spec, **kw)
    if v[0][0] != "ok":
        raise MachineryError(f"{spec}: the uncorrupted trace is rejected: {v[0]}")
    if v[1][0] != clause:
        raise MachineryError(f"{spec}: corrupted trace gave {v[1]}, expected clause {clause}")
    run.count_case(spec + clause)
    run.sample({"spec": spec, "corrupted_field_detected_as": clause})


def check(run: Run) -> None:
    src = "x = f(1,\n      'a b')  # c\nif x:\n    y = $(ls -l)\n"
    tk = run_ops("tok", [{"src": src}])[0]["toks"]
    t = c08.trace_of(0, src, tk)
    bad = copy.deepcopy(t)
    bad["toks"][3]["ec"] += 1                      # one end column off by one
    expect(run, "TokStream", t, bad, "text_not_source_slice")
    bad = copy.deepcopy(t)
    del bad["toks"][next(i for i, x in enumerate(bad["toks"]) if x["ty"] == "DEDENT")]   # a DEDENT lost
    expect(run, "TokStream", t, bad, "balance_unclosed_indent")
    r = run_ops("c01", [{"src": "a = b + c * 2\n", "mode": "exec"}])[0]
    good = {"aok": True, "bok": True, "a": r["a"], "b": r["b"], "pos": True, "want": [], "spans": []}
    bad = copy.deepcopy(good)
    bad["a"][3][2] += 1                             # span digest of one node
    expect(run, "AstEq", good, bad, "span")
    bad = copy.deepcopy(good)
    bad["a"][2][1] += 1                             # a field value digest
    expect(run, "AstEq", good, bad, "field_values")
    r4 = run_ops("c04", [{"src": "a, b = c\n", "mode": "exec"}])[0]
    good = {"ll": r4["ll"], "rows": r4["rows"], "comp": r4["compile"]}
    bad = copy.deepcopy(good)
    for row in bad["rows"]:
        if row["ty"] == "Name" and row["ctx"] == "Store":
            row["ctx"] = "Load"                     # a binding target recorded as Load
            break
    expect(run, "AstShape", good, bad, "context")
    bad = copy.deepcopy(good)
    bad["rows"][1]["f"][0][1] = "none"              # Assign.targets recorded as None instead of a list
    expect(run, "AstShape", good, bad, "field_shape")
    r6 = run_ops("c06", [{"src": "$(ls -la a$HOME)"}])[0]
    good = {"ok": True, "func": r6["func"], "wfunc": "subproc_captured", "after": "ok", "got": r6["args"], "want": [["w:ls"], ["w:-la"], ["w:a", "e:HOME"]]}
    bad = copy.deepcopy(good)
    bad["got"] = [["w:ls"], ["w:-la", "w:a", "e:HOME"]]   # two arguments recorded as one
    expect(run, "WordSplit", good, bad, "argument_split_or_merged")
    e = run_ops("c11", [{"src": "x = = 1\n", "entries": ("string",)}])[0]["errors"][0]
    bad = copy.deepcopy(e)
    bad["off"] = 0                                  # 0-based column recorded
    expect(run, "ErrShape", e, bad, "offset_missing_or_not_1_based")
    good = {"steps": [[1, 5, 5], [2, 7, 7]], "kept": [[3, 3]]}
    bad = {"steps": [[1, 5, 5], [2, 8, 7]], "kept": [[3, 3]]}
    expect(run, "Pure", good, bad, "outcome_depends_on_history_or_schedule")
    good = {"pts": [[4, 20, 3000], [8, 40, 6100], [16, 80, 12500]]}
    bad = {"pts": [[4, 20, 3000], [8, 40, 6100], [16, 80, 40000]]}
    expect(run, "WorkLaw", good, bad, "doubling_the_size_more_than_doubles_the_work", cfg_extra="CONSTANTS\n EpsPct = 30\n C = 4000\n K = 2500\n")
    run.extra["explanation"] = "every trace specification accepts the recorded trace and rejects it with the expected clause after one field is corrupted"
    run.rule = "one good and one corrupted trace per trace specification clause"


def replay(rec):
    return 0
