"""C14 -- statements parse independently: parse(A+B).body = parse(A).body ++ shifted parse(B).body.

spec -> code: StmtSeq.tla holds the statement forms (Python and every xonsh statement form) and
TLC enumerates every sequence up to a bound.  The real parser parses the concatenation and
every part alone; the flattened bodies (with positions, the parts line-shifted) are validated
by TLC against AstEq.tla.
"""
from __future__ import annotations

import os

from ..core import Run
from ..pool import run_ops
from ..tlc import read_export, run_tlc, validate_traces

ALL = set(range(1, 72))
XSH = {1, 4, 13, 17, 18, 20, 23, 25, 26, 27, 28, 29, 30, 39, 40, 45, 46, 47, 48, 49, 50, 52, 53, 56, 58}
TIERS = {"quick": [(ALL, 2), (XSH, 3)], "thorough": [(ALL, 3), (XSH, 4)]}


def generate(run: Run, tier: str) -> list[dict]:
    out, seen = [], set()
    for i, (use, n) in enumerate(TIERS[tier]):
        f = os.path.join(run.dir, f"stmtseq{i}.ndjson")
        run_tlc(run, "StmtSeq", "INIT Init\nNEXT Next\nINVARIANT Export\nCHECK_DEADLOCK FALSE\n", env={"OUT": f}, name=f"stmtseq{i}",
                consts={"Use": set(use), "MaxLen": n})
        for c in read_export(f):
            k = tuple(c["kinds"])
            if k not in seen:
                seen.add(k)
                out.append(c)
        os.remove(f)
    out.sort(key=lambda c: c["kinds"])
    return out


def cases_for_c04(run: Run, tier: str) -> list[dict]:
    cs = generate(run, "quick")
    return [{"src": "".join(c["parts"]), "mode": "exec", "origin": "c14"} for c in cs if tier != "quick" or len(c["kinds"]) <= 2]


def check(run: Run) -> None:
    cases = generate(run, run.tier)
    # the same law through the file entry point: every 4th sequence (seed-shifted) and every sequence with a with-macro / debug field
    from ..core import SEED

    FILEKINDS = {26, 27, 40, 64, 65}
    cases += [dict(c, entry="file") for i, c in enumerate(list(cases)) if (i + SEED) % 4 == 0 or (set(c["kinds"]) & FILEKINDS)]
    res = run_ops("c14", [{"parts": c["parts"], "entry": c.get("entry", "string")} for c in cases], limit=20.0, batch=200)
    traces = []
    for i, (c, r) in enumerate(zip(cases, res)):
        run.count_case(str(c["kinds"]), nontrivial=len(c["kinds"]) > 1)
        if i % 4001 == 0:
            run.sample({"kinds": c["kinds"], "text": "".join(c["parts"])})
        if not r["alone_ok"]:
            run.violation({"kinds": c["kinds"], "parts": c["parts"]}, "statement_form_rejected_on_its_own", r["alone"], key="alone:" + str(r["alone"]["part"]))
            continue
        traces.append({"id": i, "aok": r["whole_ok"], "bok": True, "a": r.get("a", []), "b": r.get("b", []), "pos": True, "want": [], "spans": []})
    verdicts = validate_traces(run, "AstEq", traces, name="compose")
    for i, (clause, k) in sorted(verdicts.items()):
        if clause != "ok":
            c, r = cases[i], res[i]
            run.violation({"kinds": c["kinds"], "parts": c["parts"], "entry": c.get("entry", "string")}, clause,
                          {"row": k, "diff": r.get("diff"), "whole": r.get("whole")})
    run.exhaustive = True
    run.rule = "all sequences of statement kinds up to the bound (StmtSeq.tla); non-trivial = at least two statements"
    run.assumptions += ["the stand-alone parse by the same parser is the reference (the property's own relation)"]


def replay(rec: dict) -> int:
    c = rec["case"]
    r = run_ops("c14", [{"parts": c["parts"], "entry": c.get("entry", "string")}], limit=20.0)[0]
    print("parts:", c["parts"], "\nresult:", {k: v for k, v in r.items() if k not in ("a", "b")})
    return 0 if r["alone_ok"] and r["whole_ok"] and r.get("a") == r.get("b") else 1
