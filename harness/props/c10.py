"""C10 -- f-strings (tokens and trees) agree with CPython, incl. nested fields and specs.

spec -> code: FString.tla enumerates prefix x quote x item sequences (literal parts and
replacement-field forms) and adjacent-literal concatenations; CPython 3.12 says which are valid
and is the oracle for both the token stream (TokAgree.tla) and the tree (AstEq.tla, with
spans).  code -> spec: every f-string literal of the corpus goes through the same validation.
"""
from __future__ import annotations

import io
import os
import tokenize

from .. import corpus
from ..core import Run
from ..pool import run_ops
from ..tlc import read_export, run_tlc, validate_traces

ALL = set(range(1, 92))
TIERS = {
    "quick": [dict(MaxItems=1, ItemUse=ALL, PrefixUse={1, 2, 3, 4, 5, 6, 7, 8}, QuoteUse={1, 2, 3, 4}, Concat=True),
              dict(MaxItems=2, ItemUse=ALL, PrefixUse={1}, QuoteUse={2, 3}, Concat=False),
              dict(MaxItems=3, ItemUse={1, 3, 4, 5, 16, 17, 22, 23, 26, 34, 46}, PrefixUse={1, 3}, QuoteUse={2, 4}, Concat=False),
              dict(MaxItems=3, ItemUse={1, 3, 16, 61, 62, 64, 6}, PrefixUse={1, 3}, QuoteUse={1, 2, 3}, Concat=False)],
    "thorough": [dict(MaxItems=2, ItemUse=ALL, PrefixUse={1, 2, 3, 4, 5, 6, 7, 8}, QuoteUse={1, 2, 3, 4}, Concat=False),
                 dict(MaxItems=2, ItemUse=ALL, PrefixUse={1, 4}, QuoteUse={2, 3}, Concat=True),
                 dict(MaxItems=3, ItemUse=ALL, PrefixUse={1}, QuoteUse={2, 4}, Concat=False),
                 dict(MaxItems=4, ItemUse={1, 3, 4, 5, 16, 17, 22, 23, 26, 34, 46}, PrefixUse={1, 3}, QuoteUse={2, 4}, Concat=False)],
}


def generate(run: Run, tier: str) -> list[dict]:
    out, seen = [], set()
    for i, c in enumerate(TIERS[tier]):
        f = os.path.join(run.dir, f"fstring{i}.ndjson")
        run_tlc(run, "FString", "INIT Init\nNEXT Next\nINVARIANT Export\nCHECK_DEADLOCK FALSE\n", env={"OUT": f}, name=f"fstring{i}",
                consts={k: (set(v) if isinstance(v, set) else v) for k, v in c.items()})
        for case in read_export(f):
            for src in ([case["src"]] + ([case["src"].replace("\n", "\r\n")] if "\n" in case["src"] else [])):   # CRLF twin
                if src not in seen:
                    seen.add(src)
                    out.append({"src": src, "origin": "fstring.tla", "items": case["items"]})
        os.remove(f)
    out.sort(key=lambda c: c["src"])
    return out


def corpus_fstrings(cap_files: int) -> list[dict]:
    """every f-string literal (with its adjacent literals) occurring in corpus programs and stdlib statements"""
    out, seen = [], set()
    progs = [s for _, s in corpus.programs(cap=300)] + [s for _, s in corpus.stdlib_statements(cap_files)]
    for src in progs:
        if "f'" not in src and 'f"' not in src and "F'" not in src and 'F"' not in src:
            continue
        try:
            toks = list(tokenize.generate_tokens(io.StringIO(src).readline))
        except (tokenize.TokenError, SyntaxError, IndentationError):
            continue
        depth, start = 0, None
        lines = src.splitlines(keepends=True)
        for t in toks:
            if t.type == tokenize.FSTRING_START:
                if depth == 0:
                    start = t.start
                depth += 1
            elif t.type == tokenize.FSTRING_END:
                depth -= 1
                if depth == 0 and start is not None:
                    (sl, sc), (el, ec) = start, t.end
                    seg = lines[sl - 1][sc:ec] if sl == el else lines[sl - 1][sc:] + "".join(lines[sl:el - 1]) + lines[el - 1][:ec]
                    text = "(" + seg + ")"
                    if text not in seen and len(text) < 600:
                        seen.add(text)
                        out.append({"src": text, "origin": "corpus", "items": []})
    return out


def cases_for_c04(run: Run, tier: str) -> list[dict]:
    cs = generate(run, "quick")
    keep = [c for i, c in enumerate(cs) if tier != "quick" or i % 5 == 0 or ("\n" in c["src"] and i % 2 == 0)]
    return [{"src": c["src"], "mode": "eval", "origin": "c10"} for c in keep]


def fmode_cases(run: Run) -> list[dict]:
    """complete single-line literals of the mode-machine model (FMode.tla); CPython decides which are valid"""
    from .. import gens

    return [{"src": c["src"], "origin": "fmode.tla", "items": []} for c in gens.fmode(run) if c["outcome"] == "ok"]


def cases_for(run: Run, tier: str) -> list[dict]:
    return generate(run, tier) + corpus_fstrings(40 if tier == "quick" else 600)


def evaluate(run: Run, cases: list[dict], tag: str, count: bool) -> dict[int, list]:
    """runs both tokenizers / parsers on every case and lets TLC judge; returns index -> [(clause, detail)];
    chunk by chunk, so that the observations (two token streams and two trees per literal) are never all in memory"""
    CH = 60000
    bad: dict[int, list] = {}
    for n, lo in enumerate(range(0, len(cases), CH)):
        for i, items in _evaluate(run, cases[lo:lo + CH], f"{tag}-{n}", count).items():
            bad[lo + i] = items
    return bad


def _evaluate(run: Run, cases: list[dict], tag: str, count: bool) -> dict[int, list]:
    res = run_ops("c10", [{"src": c["src"]} for c in cases], limit=20.0, batch=50)
    bad: dict[int, list] = {}
    ttraces, atraces = [], []
    for i, (c, r) in enumerate(zip(cases, res)):
        t, a = r["tok"], r["tree"]
        if not a["py_ok"] or not t["py_ok"]:
            if count:
                run.note("not_valid_for_cpython")
            else:
                bad.setdefault(i, []).append(("reduced_text_not_valid_python", None))
            continue
        if count:
            run.count_case(c["src"])
            if len(ttraces) % 1501 == 0:
                run.sample({"src": c["src"], "origin": c["origin"]})
        if t.get("impl_hang") or a.get("impl_hang"):
            bad.setdefault(i, []).append(("implementation_hangs", None))
            continue
        if not t["impl_ok"]:
            bad.setdefault(i, []).append(("tokens:implementation_rejects", {"impl_exc": t["impl_exc"]}))
        else:
            ttraces.append({"id": i, "a": t["a"], "b": t["b"]})
        atraces.append({"id": i, "aok": a["impl_ok"], "bok": True, "a": a.get("a", []), "b": a.get("b", []), "pos": True, "want": [], "spans": []})
    for i, (clause, k) in sorted(validate_traces(run, "TokAgree", ttraces, name="ftok" + tag).items()):
        if clause != "ok":
            bad.setdefault(i, []).append(("tokens:" + clause, {"token": k, "diff": res[i]["tok"].get("diff"),
                                                               "split_only": bool(res[i]["tok"].get("merged_equal")), "noempty_equal": bool(res[i]["tok"].get("noempty_equal")),
                                                               "both_equal": bool(res[i]["tok"].get("both_equal"))}))
    for i, (clause, k) in sorted(validate_traces(run, "AstEq", atraces, name="ftree" + tag).items()):
        if clause != "ok":
            bad.setdefault(i, []).append(("tree:" + clause, {"row": k, "diff": res[i]["tree"].get("diff"), "impl_exc": res[i]["tree"].get("impl_exc"),
                                                             "nospecempty_equal": bool(res[i]["tree"].get("nospecempty_equal")),
                                                             "specmerged_equal": bool(res[i]["tree"].get("specmerged_equal")),
                                                             "specmerged_textspan_only": bool(res[i]["tree"].get("specmerged_textspan_only")),
                                                             "nospecempty_textspan_only": bool(res[i]["tree"].get("nospecempty_textspan_only"))}))
    return bad


def check(run: Run) -> None:
    from .. import fsreduce

    cases = cases_for(run, run.tier) + fmode_cases(run)
    bad = evaluate(run, cases, "", True)
    # explanation by reduction: the same literal without the features of the listed findings must agree completely
    known = {f["id"] for f in run.findings if f.get("status") == "known"}
    reduced, plan = {}, {}
    for i in bad:
        red, fam = fsreduce.neutralise(cases[i]["src"])
        ids = {fsreduce.FAMILY_FINDING[x] for x in fam}
        if fam and red != cases[i]["src"] and ids <= known:
            plan[i] = (red, sorted(ids))
            reduced.setdefault(red, None)
    rcases = [{"src": r, "origin": "reduced", "items": []} for r in reduced]
    rbad = evaluate(run, rcases, "_reduced", False) if rcases else {}
    rfail = {rcases[j]["src"] for j in rbad}
    SPLIT, EMPTY = "K-C10-named-escape-token-split", "K-C10-empty-parts-in-spec"
    import re

    def quirks(items, src):
        """the findings that explain every recorded difference as a cut / an empty part CPython produces and this tokenizer does
        not (the streams and trees are equal once those are set aside), or None"""
        ids = set()
        named = "\\N{" in src
        cont = bool(re.search(r"\\N\{[^{}]*\}\\\r?\n", src))
        for cl, d in items:
            d = d or {}
            if cl.startswith("tokens:") and d.get("split_only") and named:
                ids.add(SPLIT)
            elif cl.startswith("tokens:") and d.get("noempty_equal"):
                ids.add(EMPTY)
            elif cl.startswith("tokens:") and d.get("both_equal") and named:
                ids |= {SPLIT, EMPTY}
            elif cl.startswith("tree:") and d.get("nospecempty_equal"):
                ids.add(EMPTY)
            elif cl == "tree:span" and cont and named:
                ids.add(SPLIT)
            elif cl.startswith("tree:") and d.get("specmerged_equal") and named:   # the cut pieces of a spec's text stay separate nodes
                ids |= {SPLIT, EMPTY}
            elif cl.startswith("tree:") and d.get("specmerged_textspan_only") and cont and named:   # the cut inside a spec AND before a continuation
                ids |= {SPLIT, EMPTY}
            elif cl.startswith("tree:") and d.get("nospecempty_textspan_only") and cont and named:   # both at once
                ids |= {SPLIT, EMPTY}
            else:
                return None
        return ids if ids and ids <= known else None

    rquirk = {rcases[j]["src"]: quirks(items, rcases[j]["src"]) for j, items in rbad.items()}
    for i, items in sorted(bad.items()):
        c = cases[i]
        q = quirks(items, c["src"])
        if q:
            for fid in q:
                run.known_hits[fid] = run.known_hits.get(fid, 0) + 1
            continue
        if i in plan and rquirk.get(plan[i][0]):          # a listed feature removed, what remains is such a quirk only
            for fid in set(plan[i][1]) | rquirk[plan[i][0]]:
                run.known_hits[fid] = run.known_hits.get(fid, 0) + 1
            continue
        if i in plan and plan[i][0] not in rfail:
            for fid in plan[i][1]:
                run.known_hits[fid] = run.known_hits.get(fid, 0) + 1
            continue
        for clause, detail in items:
            d = dict(detail or {})
            if i in plan:
                d["reduced_text_still_differs"] = plan[i][0]
            run.violation({"src": c["src"], "origin": c["origin"], "items": c["items"]}, clause, d)
    run.extra["explained_by_reduction"] = len(plan) - sum(1 for i in plan if plan[i][0] in rfail)
    run.rule = ("f-string literals enumerated by TLC from FString.tla (prefix x quote x item sequences x concatenations) + every f-string of "
                "the corpus / stdlib sample; evaluated = those CPython accepts; distinct = distinct texts")
    run.assumptions += ["CPython 3.12.1 tokenize and ast.parse are the oracles",
                        "a difference is attributed to a known finding only if the same literal with that feature removed (fsreduce.py) agrees completely"]


def replay(rec: dict) -> int:
    src = rec["case"]["src"]
    r = run_ops("c10", [{"src": src}], limit=20.0)[0]
    print("source:", repr(src))
    print("tokens diff:", r["tok"].get("diff"), r["tok"].get("impl_exc"))
    print("tree diff:", r["tree"].get("diff"), r["tree"].get("impl_exc"))
    t, a = r["tok"], r["tree"]
    ok = t.get("impl_ok") and t.get("a") == t.get("b") and a.get("impl_ok") and a.get("a") == a.get("b")
    return 0 if ok or not a["py_ok"] else 1
