"""C11 -- syntax errors are well-formed and point into the offending source.

Rejected inputs come from the other generators (EditGen single-character and single-token edits,
AllTok strings, GramGen sentences CPython rejects) and from the repository's own invalid
snippets (harvested); ErrLayout.tla places every rejected snippet at every position (first
line, after blank/comment lines, inside a block, before more code, CRLF, no final newline, ...)
and both entry points are used.  Every raised SyntaxError / IndentationError is recorded and
validated by TLC against ErrShape.tla.
"""
from __future__ import annotations

import os
import random

from .. import corpus, gens
from ..core import SEED, Run
from ..pool import run_ops
from ..tlc import read_export, run_tlc, validate_traces

TIERS = {"quick": dict(snips=140, layouts=set(range(1, 15)), edits=25, repl=["(", ")", "sq", ":", "$", "!", "nl", "sp", "=", "1"]),
         "thorough": dict(snips=900, layouts=set(range(1, 15)), edits=250, repl=["(", ")", "sq", "dq", ":", "$", "!", "nl", "sp", "=", "1", "a", "{", "}", ",", "bsl", "#", "bt", "?"])}


# errors raised outside the grammar's error builder: literal evaluation, conversions, macro brackets, version gate
SPECIAL = ["x = '\\N{nope}'\n", "y = b'\u00e9'\n", "z = '\\x1'\n", "w = u'\\ud8'\n", "v = f'{a!z}'\n", "u = f'{a!rs}'\n", "f!(a]\n", "f!((a, b]\n",
           "t = 1 + 2j\nmatch q:\n    case 1j + 2:\n        pass\n", "match q:\n    case -x:\n        pass\n", "s = '\\777' '\\N{x}'\n",
           "def f[T](): pass\n", "type X = int\n", "try:\n    pass\nexcept* E:\n    pass\n", "class C[T]: pass\n", "$(echo @(1 +))\n", "x = (1,\n  2\n", "if a:\n  b\n c\n",
           "try:\n    a\nz = 1\n", "if q:\n    @d\nz = 1\n", "def g():\n    if r:\n        @d\n    x\n", "try:\n    if a:\n        b\nc = 1\n",
           "class K:\n    def m(self):\n        try:\n            pass\n    n = 1\n", "with a:\n    for i in\n", "if a:\n    x = (\ny = 2\n"]
GATED = {"def f[T](): pass\n", "type X = int\n", "try:\n    pass\nexcept* E:\n    pass\n", "class C[T]: pass\n"}


def layouts(run: Run, n: int, use: set) -> list[dict]:
    f = os.path.join(run.dir, "errlayout.ndjson")
    run_tlc(run, "ErrLayout", "INIT Init\nNEXT Next\nINVARIANT Export\nCHECK_DEADLOCK FALSE\n", env={"OUT": f}, name="errlayout",
            consts={"NSnippets": n, "LayoutUse": set(use)})
    res = read_export(f)
    os.remove(f)
    res.sort(key=lambda r: (r["snippet"], r["layout"]["id"]))
    return res


def place(snip: str, lay: dict) -> str:
    body = snip if snip.endswith("\n") else snip + "\n"
    if lay["indent"]:
        body = "".join(lay["indent"] + ln if ln.strip() else ln for ln in body.splitlines(keepends=True))
    s = lay["pre"] + body + lay["post"]
    if lay["nofinal"]:
        s = s.rstrip("\n")
    if lay["crlf"]:
        s = s.replace("\r\n", "\n").replace("\n", "\r\n")
    return s


def check(run: Run) -> None:
    cfg = TIERS[run.tier]
    rng = random.Random(SEED + 8)
    # 1. candidate snippets: harvested test inputs + seeds; the implementation decides which are rejected
    cand = sorted({h["src"] for h in corpus.harvested() if h["mode"] == "exec" and len(h["src"]) < 300} | set(corpus.xonsh_seeds()) | set(corpus.layout_seeds()))
    first = run_ops("c11", [{"src": s, "entries": ("string",)} for s in cand], limit=20.0, batch=100)
    rejected = [s for s, r in zip(cand, first) if r["errors"] and not r["errors"][0].get("hang")]
    rejected = rng.sample(rejected, min(cfg["snips"], len(rejected))) + [x for x in SPECIAL if x not in GATED] + corpus.invalid_seeds()
    # errors raised while evaluating literals / when the parser runs out of stack (placed by the layouts like any other snippet)
    rejected += ["x = " + "1" * 4400 + "\n", "x = -" + "9" * 4400 + "j + 1\n", "x = " + "(" * 400 + "1" + ")" * 400 + "\n", "x = '\ud800'\n",
                 "x = b'\u00e9'\n", "x = '\\N{NOPE}'\n", "x = f'{y:{z=}' \n"]
    cases, seen = [], set()

    def add(src, origin):
        if src not in seen:
            seen.add(src)
            cases.append({"src": src, "origin": origin})

    for p in layouts(run, len(rejected), cfg["layouts"]):
        add(place(rejected[p["snippet"] - 1], p["layout"]), "layout:" + p["layout"]["id"])
    # 2. edit neighbourhood of valid seeds (most edits are rejected)
    seeds = sorted(set(corpus.layout_seeds() + corpus.xonsh_seeds()))
    seeds = rng.sample(seeds, min(cfg["edits"], len(seeds)))
    for e in gens.editgen(run, seeds, cfg["repl"], ops=("prefix", "del", "ins", "rep")):
        add(e["src"], "edit:" + e["op"])
    for p in layouts(run, len(GATED), {1, 3, 5, 7, 12}):   # version-gated syntax under an old py_version
        add(place(sorted(GATED)[p["snippet"] - 1], p["layout"]), "gated:" + p["layout"]["id"])
    for c in gens.indent(run, light=True):
        if c["outcome"] != "ok":
            add(c["src"], "indent.tla:" + c["outcome"])
    CH = 100000
    for lo in range(0, len(cases), CH):
        _judge(run, cases[lo:lo + CH])
    run.extra["rejected_snippets"] = len(rejected)
    run.rule = ("rejected snippets (harvested invalid test inputs + seeds) x 14 layouts (ErrLayout.tla) + single-character edit neighbourhood "
                "of seed programs, both entry points; evaluated = raised SyntaxError/IndentationError records; distinct = (text, entry)")
    run.assumptions += ["line length = characters without the line terminator; offset may point one past it"]


def _judge(run: Run, cases: list[dict]) -> None:
    """one chunk of texts: error records of both entry points, judged by ErrShape.tla"""
    res = run_ops("c11", [{"src": c["src"], "py_version": (3, 8) if c["origin"].startswith("gated:") else None} for c in cases], limit=20.0, batch=100)
    traces, meta = [], []
    for c, r in zip(cases, res):
        for e in r["errors"]:
            if e.get("hang"):
                continue
            run.count_case(c["src"] + e["entry"])
            t = dict(e)
            t["id"] = len(traces)
            traces.append(t)
            meta.append(c)
            if len(traces) % 4001 == 0:
                run.sample({"src": c["src"], "entry": e["entry"], "error": {k: e[k] for k in ("cls", "msg", "ln", "off", "eln", "eoff", "text")}})
    verdicts = validate_traces(run, "ErrShape", traces, name="errshape")
    for i, (clause, _k) in sorted(verdicts.items()):
        if clause != "ok":
            c, t = meta[i], traces[i]
            run.violation({"src": c["src"], "origin": c["origin"], "entry": t["entry"]}, clause,
                          {k: t[k] for k in ("cls", "msg", "fname", "ln", "off", "eln", "eoff", "text", "line", "nargs")})


def replay(rec: dict) -> int:
    c = rec["case"]
    r = run_ops("c11", [{"src": c["src"], "entries": (c["entry"],)}], limit=20.0)[0]
    print("source:", repr(c["src"]), "\nerrors:", r["errors"])
    if not r["errors"]:
        return 0
    run = Run("C11", "quick")
    t = dict(r["errors"][0])
    t["id"] = 0
    v = validate_traces(run, "ErrShape", [t])
    print("verdict:", v[0])
    return 0 if v[0][0] == "ok" else 1
