"""bin/check entry point."""
import importlib
import warnings
import json
import sys
import traceback

from .core import MachineryError, Run


def main(argv):
    warnings.simplefilter("ignore")
    if len(argv) < 2:
        print(__doc__)
        return 2
    if argv[0] == "--replay":          # bin/check --replay <file>: the property is read from the record / its directory
        import os

        rec = json.load(open(argv[1]))
        pid = rec.get("property") or os.path.basename(os.path.dirname(os.path.abspath(argv[1])))
        argv = [pid, "--replay", argv[1]]
    pid = argv[0].upper()
    mod = importlib.import_module(f"harness.props.{pid.lower()}")
    try:
        if argv[1] == "--replay":
            return mod.replay(json.load(open(argv[2])))
        tier = argv[1]
        if tier not in ("quick", "thorough"):
            print("tier must be quick or thorough")
            return 2
        run = Run(pid, tier, level=getattr(mod, "LEVEL", "model_checking"))
        mod.check(run)
        return run.finish()
    except MachineryError as ex:
        print(f"MACHINERY-FAILURE {pid}: {ex}", file=sys.stderr)
        return 2
    except Exception:  # noqa: BLE001
        traceback.print_exc()
        print(f"MACHINERY-FAILURE {pid}: unexpected exception", file=sys.stderr)
        return 2


if __name__ == "__main__":
    sys.exit(main(sys.argv[1:]))
