"""Indent driver: runs spec/Indent.tla (line-structure model of the scanner), renders the generated layouts
to text and returns [{"src", "lines", "outcome", "err", "toks": [[ty, text, sl, sc, el, ec], ...]}]."""
from __future__ import annotations

import os

from .core import Run
from .tlc import read_export, run_tlc

LAWS = ["StacksIncrease", "Balanced", "EndBalanced", "OneNewlinePerLogicalLine", "SpacesNeverTabError", "DedentOnlyToOpenLevel"]
CFG = "INIT Init\nNEXT Next\n" + "".join(f"INVARIANT {x}\n" for x in LAWS) + "INVARIANT %s\nCHECK_DEADLOCK FALSE\n"
UNIT = {"s": " ", "t": "\t", "f": "\f"}
# (whitespace indices, shape indices, lines)
CONFIGS = {
    # (whitespace indices, shape indices, lines, stride: every n-th generated layout is kept, shifted by VERIF_SEED)
    "quick": [(set(range(1, 16)), {1, 2, 3, 4, 5, 6, 7, 9}, 2, 2), ({1, 2, 5, 6, 9}, {1, 2, 3, 4, 5, 6, 7}, 3, 6), ({1, 2, 3, 4, 5, 6, 8}, {2, 8}, 4, 4),
              ({1, 2, 4, 5, 6}, {2, 8, 9}, 4, 3),
              # block-structured layouts only (a deeper line exactly after a header): long enough for a dedent to land on the
              # column of an EARLIER, already closed block
              ({1, 3, 4, 12}, {2, 8}, 7, 2, True), ({1, 2, 5, 6, 8}, {2, 8}, 6, 2, True)],
    "thorough": [(set(range(1, 16)), {1, 2, 3, 4, 5, 6, 7, 9}, 3, 1), ({1, 2, 4, 5, 6}, {2, 8, 9, 5}, 5, 1),
                 ({1, 3, 4, 12}, {2, 8, 5}, 6, 1, True), ({1, 3, 4, 12}, {2, 8}, 8, 1, True), ({1, 2, 4, 5, 6, 8}, {2, 8}, 7, 1, True), ({1, 2, 4, 5, 6, 9}, {1, 2, 3, 4, 5, 6, 7}, 4, 1), ({1, 2, 3, 4, 5, 6, 8}, {2, 8, 5}, 5, 1)],
}


def table(run: Run) -> dict:
    f = os.path.join(run.dir, "indtable.ndjson")
    run_tlc(run, "Indent", CFG % "ExportTable", env={"OUT": f}, name="indtable", consts={"MaxLines": 0, "UseWs": {1}, "UseShape": {1}, "Plausible": False}, workers=1)
    t = read_export(f)[0]
    os.remove(f)
    return t


def generate(run: Run, tier: str | None = None, light: bool = False) -> list[dict]:
    """light: only the text and the predicted outcome (the predicted token streams of a million layouts do not fit in memory)"""
    tab = table(run)
    ws = ["".join(UNIT[u] for u in w) for w in tab["ws"]]
    shapes = tab["shapes"]
    out, seen = [], set()
    from .core import SEED

    for ci, cfg in enumerate(CONFIGS[tier or run.tier]):
        usews, useshape, n, stride = cfg[:4]
        plausible = len(cfg) > 4 and cfg[4]
        f = os.path.join(run.dir, f"indent{ci}.ndjson")
        run_tlc(run, "Indent", CFG % "Export", env={"OUT": f}, name=f"indent{ci}", consts={"MaxLines": n, "UseWs": usews, "UseShape": useshape, "Plausible": bool(plausible)})
        slim = (lambda c: {"lines": c["lines"], "eol": c["eol"], "outcome": c["outcome"], "err": c["err"], "toks": []}) if light else None
        rows = sorted(read_export(f, keep=slim), key=lambda c: (c["lines"], c["eol"]))
        for c in rows[SEED % stride:: stride]:
            parts = [ws[w - 1] + shapes[sh - 1]["text"] for w, sh in c["lines"]]
            src = "\n".join(parts) + ("\n" if c["eol"] else "")
            if src in seen:
                continue
            seen.add(src)
            toks = []
            for ty, tx, sl, sc, el, ec in c["toks"]:
                if ty == "INDENT":
                    tx = ws[tx - 1]
                elif tx == 0:
                    tx = ""
                toks.append([ty, tx, sl, sc, el, ec])
            out.append({"src": src, "outcome": c["outcome"]} if light else {"src": src, "lines": c["lines"], "outcome": c["outcome"], "err": c["err"], "toks": toks})
        os.remove(f)
    out.sort(key=lambda c: c["src"])
    return out


STRUCT = {"INDENT", "DEDENT", "NEWLINE", "NL", "ENDMARKER", "COMMENT", "NAME", "OP", "ERRORTOKEN"}


def drift(cases: list[dict], results: list[dict]) -> list[dict]:
    """compare the real token stream (op tok) with the prediction: types, coordinates; text for all but newline tokens"""
    diffs = []
    for c, r in zip(cases, results):
        if r.get("hang"):
            continue
        exc = (r.get("exc") or {})
        if c["outcome"] != "ok":
            if r["toks"] is not None or exc.get("cls") != c["outcome"]:
                diffs.append({"src": c["src"], "predicted": c["outcome"], "observed": exc.get("cls") or "tokens"})
            elif c["err"] and [exc.get("lineno"), exc.get("offset")] != c["err"][1:]:
                diffs.append({"src": c["src"], "predicted": c["err"], "observed": [exc.get("cls"), exc.get("lineno"), exc.get("offset")]})
            continue
        if r["toks"] is None:
            diffs.append({"src": c["src"], "predicted": "tokens", "observed": exc.get("cls")})
            continue
        norm = lambda ts: [[t[0], "" if t[0] in ("NEWLINE", "NL") else t[1]] + list(t[2:6]) for t in ts if t[0] in STRUCT]
        a, b = norm(r["toks"]), norm(c["toks"])
        if a != b:
            k = next((i for i, (x, y) in enumerate(zip(a, b)) if x != y), min(len(a), len(b)))
            diffs.append({"src": c["src"], "at": k, "predicted": b[k: k + 2], "observed": a[k: k + 2]})
    return diffs
