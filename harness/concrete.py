"""Concretiser: sentence of token kinds (from GramGen / AllTok) -> source text.

Deterministic in (sentence, variant, SEED).  Names are distinct per position (so that swapped
operands are visible), numbers / strings rotate over spellings, macro-terminals (<BLOCK>, ...)
expand to representative snippets, layout variants change only what the sentence allows.
"""
from __future__ import annotations

import random
import re

NAMES = ["a", "b", "c", "d", "e1", "f_", "gg", "h", "i", "k", "m", "n"]
UNAMES = ["é", "ñá", "λ", "中"]
NUMBERS = ["1", "2.5", "0x1F", "3j", "1_000", "1e3", ".5", "0o7", "0b11", "7.", "0", "00", "1E-2", "4.5J"]
STRINGS = ["'s'", '"t"', "b'x'", "r'\\d'", "'''m'''", "'a' 'b'", "u'u'", '"""q"""', "'\\n'", "rb'z'", "''", '"é"',
           "'a' \"b\" 'c'", "'x'   'y'", "U'v'", "R'\\w'", "B'y'", "Rb'z'", "U'a' 'b'", "bR'c'",
           "'''a\n    \nb'''", '"""\n\t\n  \n"""', "'''\n \n'''", "r'''x\n        \n    y'''"]
CONST_ATOMS = ["True", "False", "None", "..."]
BLOCKS = ["pass\n", "\n{i}pass\n", "\n{i}x = 1\n{i}y\n", "x = 1; y\n", "\n{i}return\n"]
MACROS = {
    "<STRINGS>": None,
    "<BLOCK>": None,
    "<EXPR>": ["x", "x + 1", "f(x)", "x.y", "x[0]", "(x, y)", "[x]", "not x", "x if y else z", "lambda: x", "x < y < z", "-x ** 2"],
    "<TARGET>": ["t", "t.a", "t[0]", "(t, u)", "[t, *u]", "t, u"],
    "<PARAMS>": ["", "p", "p, q=1", "p, /, q", "*, k", "*a, **kw", "p: int = 1", "p, *a, k=2, **kw", "p=1, /, q=2, *, r, s=3"],
    "<PATTERN>": ["_", "1", "x", "'s'", "[x, *y]", "{'k': v, **r}", "C(x, y=1)", "a.b", "1 | 2", "(x as y)", "-1", "1+2j", "None",
                  "-1 + 2J", "1E1 - 3J", "0X1 + 1j", "3J + 2j", "-2.5J - 1j", "{-2.5J - 1j: y}", "{1 + 2J: y, 'k': z}", "2j", "-0J"],
    "<NAMES>": ["a", "a, b"],
    "<DECOS>": ["@dec\n", "@a.b\n@c(1)\n", "@(yield)\n" if False else "@d[0]\n"],
    "<COMPOUND>": ["if a:\n    pass\n", "while a: b\n", "def f():\n    return 1\n"],
}
OPEN = {"(": ")", "[": "]", "{": "}"}
WORDS_NEED_SPACE = True


def _is_word(t: str) -> bool:
    return bool(t) and (t[0].isalnum() or t[0] == "_" or ord(t[0]) > 127)


def _needs_space(a: str, b: str) -> bool:
    """can a and b be written adjacently without changing tokenisation?"""
    if not a or not b:
        return False
    la, fb = a[-1], b[0]
    if (la.isalnum() or la == "_" or ord(la) > 127) and (fb.isalnum() or fb == "_" or ord(fb) > 127 or fb in "'\""):
        return True
    if (la.isalnum() or la == "_") and fb == ".":
        return a[0].isdigit() or a[0] == "."  # 1 .real  vs  a.b
    if la == "." and fb.isdigit():
        return True
    if la in "'\"" and fb in "'\"":
        return False
    ops = "!$?@&|<>=:.+-*/%^~"
    if la in ops and fb in ops:
        return True
    if la == "@" and fb == "(":
        return True  # never create the '@(' digraph
    if la in "$!@" and fb in "([{":
        return True
    return False


class Concretiser:
    def __init__(self, seed: int):
        self.seed = seed

    def text(self, sent: list[str], variant: int = 0, layout: str = "plain") -> str:
        rng = random.Random(f"{self.seed}:{variant}:{' '.join(sent)}")
        toks: list[str] = []  # concrete token texts or control markers
        ni = variant * 3
        numi = variant * 5
        si = variant * 7
        unicode_names = layout == "unicode"
        for t in sent:
            if t == "NAME":
                pool = UNAMES if unicode_names and rng.random() < 0.5 else NAMES
                toks.append(pool[ni % len(pool)])
                ni += 1
            elif t == "NUMBER":
                toks.append(NUMBERS[numi % len(NUMBERS)] if variant else ["1", "2", "3", "4"][numi % 4])
                numi += 1
            elif t in ("STRING", "<STRINGS>"):
                toks.append(STRINGS[si % len(STRINGS)] if variant else ["'s'", '"t"', "'u'"][si % 3])
                si += 1
            elif t == "<BLOCK>":
                toks.append(("BLOCK", BLOCKS[(variant + si + ni) % len(BLOCKS)] if variant else BLOCKS[1]))
            elif t in MACROS and MACROS[t]:
                m = MACROS[t]
                toks.append(m[(variant + ni + numi) % len(m)] if variant else m[0])
                ni += 1
            elif t in ("NEWLINE", "INDENT", "DEDENT", "ENDMARKER"):
                toks.append((t, ""))
            else:
                toks.append(t)
        text = self.join(toks, layout, rng)

        def sub(m):
            nonlocal ni
            pool = MACROS.get(m.group(1))
            if not pool:
                return m.group(0)
            ni += 1
            r = pool[(variant + ni) % len(pool)] if variant else pool[0]
            return r if r.endswith("\n") else r + m.group(2)

        return re.sub(r"(<[A-Z]+>)( ?)", sub, text)

    def join(self, toks: list, layout: str, rng: random.Random) -> str:
        unit = {"tabs": "\t", "two": "  "}.get(layout, "    ")
        nl = "\r\n" if layout == "crlf" else "\n"
        out: list[str] = []
        level = 0
        at_line_start = True
        prev = ""
        depth = 0
        for t in toks:
            if isinstance(t, tuple):
                kind, body = t
                if kind == "NEWLINE":
                    if layout == "comments" and not at_line_start:
                        out.append("  # c")
                    out.append(nl)
                    at_line_start, prev = True, ""
                elif kind == "INDENT":
                    level += 1
                elif kind == "DEDENT":
                    level = max(0, level - 1)
                elif kind == "BLOCK":
                    body = body.replace("{i}", unit * (level + 1)).replace("\n", nl)
                    if not body.startswith(nl) and out:
                        out.append(" ")
                    out.append(body)
                    at_line_start, prev = True, ""
                continue
            if at_line_start:
                out.append(unit * level)
                at_line_start = False
            elif prev:
                gap = " "
                if layout == "compact" and not _needs_space(prev, t):
                    gap = ""
                elif layout == "wide":
                    gap = rng.choice([" ", "  ", "\t", " \t "])
                elif layout == "cont" and rng.random() < 0.3:
                    gap = " \\" + nl + rng.choice(["", "  ", "\t"])   # also inside brackets (a redundant but legal continuation)
                elif layout in ("cont", "nlbrackets") and depth > 0 and rng.random() < 0.4:
                    gap = rng.choice([nl, nl + "   ", "  # c" + nl + " "])
                out.append(gap)
            out.append(t)
            if t.endswith("\n"):
                at_line_start, prev = True, ""
                continue
            if t in OPEN:
                depth += 1
            elif t in (")", "]", "}"):
                depth = max(0, depth - 1)
            prev = t
        s = "".join(out)
        if layout == "nofinalnl":
            s = s.rstrip("\r\n")
        return s


LAYOUTS = ["plain", "compact", "wide", "tabs", "crlf", "cont", "nlbrackets", "comments", "nofinalnl", "ff", "two"]
