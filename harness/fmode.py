"""FMode driver: runs spec/FMode.tla (the f-string mode machine of the scanner) and returns
[{"src", "pieces", "outcome", "toks": [[ty, text, sc, ec], ...]}] (single-line inputs, line 1)."""
from __future__ import annotations

import os

from .core import SEED, Run
from .tlc import read_export, run_tlc

LAWS = ["StackShape", "LevelsIncrease", "NoOverlap", "EndAtBase", "FieldsBalanced"]
CFG = "INIT Init\nNEXT Next\n" + "".join(f"INVARIANT {x}\n" for x in LAWS) + "INVARIANT Export\nCHECK_DEADLOCK FALSE\n"
ALL = set(range(1, 23))
# (pieces used, length, stride)
CONFIGS = {
    "quick": [(ALL, 3, 2), ({1, 3, 4, 5, 6, 7, 8, 9, 10, 11, 14, 16, 18}, 5, 9), ({1, 3, 4, 7, 14}, 7, 2)],
    "thorough": [(ALL, 4, 1), ({1, 3, 4, 5, 6, 7, 8, 9, 10, 11, 14, 16, 18}, 5, 1), ({1, 3, 4, 7, 14}, 9, 1), ({1, 3, 4, 7, 14, 10, 11, 16}, 7, 3)],
}


def generate(run: Run, tier: str | None = None) -> list[dict]:
    out, seen = [], set()
    for ci, (use, n, stride) in enumerate(CONFIGS[tier or run.tier]):
        f = os.path.join(run.dir, f"fmode{ci}.ndjson")
        run_tlc(run, "FMode", CFG, env={"OUT": f}, name=f"fmode{ci}", consts={"MaxPieces": n, "Use": use})
        rows = sorted(read_export(f), key=lambda c: c["pieces"])
        for c in rows[SEED % stride:: stride]:
            if c["src"] not in seen:
                seen.add(c["src"])
                out.append(c)
        os.remove(f)
    out.sort(key=lambda c: c["src"])
    return out


KEEP = {"FSTRING_START", "FSTRING_MIDDLE", "FSTRING_END", "OP", "NAME", "NUMBER", "STRING", "NEWLINE", "ENDMARKER", "ERRORTOKEN"}


def drift(cases: list[dict], results: list[dict]) -> list[dict]:
    diffs = []
    for c, r in zip(cases, results):
        if r.get("hang"):
            continue
        exc = r.get("exc") or {}
        if c["outcome"] != "ok":
            if r["toks"] is not None or exc.get("cls") != "TokenError":
                diffs.append({"src": c["src"], "predicted": c["outcome"], "observed": exc.get("cls") or "tokens"})
            continue
        if r["toks"] is None:
            diffs.append({"src": c["src"], "predicted": "tokens", "observed": exc.get("cls"), "msg": exc.get("msg")})
            continue
        a = [[t[0], t[1], t[3], t[5]] if t[0] != "ENDMARKER" else ["ENDMARKER"] for t in r["toks"] if t[0] in KEEP]
        b = [[t[0], t[1], t[2], t[3]] if t[0] != "ENDMARKER" else ["ENDMARKER"] for t in c["toks"]]
        a = [[x[0], "" if x[0] == "NEWLINE" else x[1]] + x[2:] if len(x) > 1 else x for x in a]
        if a != b:
            k = next((i for i, (x, y) in enumerate(zip(a, b)) if x != y), min(len(a), len(b)))
            diffs.append({"src": c["src"], "at": k, "predicted": b[k: k + 2], "observed": a[k: k + 2]})
    return diffs
