"""Input-space generators: thin wrappers that run TLC generator configurations and read the
exported cases."""
from __future__ import annotations

import os

from . import alpha
from .core import SEED, Run
from .tlc import read_export, run_tlc, tla_value


def chargen(run: Run, sub: str, maxlen: int, minlen: int = 0, simulate: int | None = None, name: str = "") -> list[list[str]]:
    """All abstract strings of length minlen..maxlen over the sub-alphabet (BFS), or `simulate`
    random ones of length maxlen (TLC -simulate)."""
    alph = alpha.SUB[sub] if isinstance(sub, str) else sub
    name = name or f"chargen-{sub}-{maxlen}" + ("-sim" if simulate else "")
    out = os.path.join(run.dir, name + ".ndjson")
    cfg = (
        f"CONSTANTS\n Alphabet = {tla_value(set(alph))}\n MaxLen = {maxlen}\n MinLen = {minlen}\n"
        "INIT Init\nNEXT Next\nINVARIANT Export\nCHECK_DEADLOCK FALSE\n"
    )
    if simulate:
        run_tlc(run, "CharGen", cfg, env={"OUT": out}, workers=1, simulate=f"num={simulate}", depth=maxlen + 1,
                name=name, seed=SEED + 17)
    else:
        run_tlc(run, "CharGen", cfg, env={"OUT": out}, name=name)
    res = [c["abs"] for c in read_export(out)]
    res.sort()
    os.remove(out)
    return res


def lexgen(run: Run, maxlex: int) -> list[dict]:
    """Lexeme sequences with the token stream the specification predicts (LexGen.tla)."""
    from . import lexgen as LG

    return LG.generate(run, maxlex)


def indent(run: Run, light: bool = False) -> list[dict]:
    """Line layouts (leading whitespace x line shape) with the token stream or error the line-structure model predicts
    (Indent.tla); light: text and outcome only."""
    from . import indent as IG

    return IG.generate(run, light=light)


def fmode(run: Run) -> list[dict]:
    """Single-line f-string inputs with the token stream the mode-machine model predicts (FMode.tla)."""
    from . import fmode as FM

    return FM.generate(run)


def editgen(run: Run, seeds: list[str], repl: list[str], ops=("prefix", "del", "ins", "rep"), name="editgen") -> list[dict]:
    """Every proper prefix / single-character edit of every seed (EditGen.tla); returns
    [{"src", "seed", "op", "pos", "cls"}] with the edit applied by the canonical representative."""
    out = os.path.join(run.dir, name + ".ndjson")
    cfg = "INIT Init\nNEXT Next\nINVARIANT Export\nCHECK_DEADLOCK FALSE\n"
    run_tlc(run, "EditGen", cfg, env={"OUT": out}, name=name,
            consts={"SeedLens": [len(s) for s in seeds], "Repl": set(repl), "Ops": set(ops)})
    res = []
    for e in read_export(out):
        s = seeds[e["seed"] - 1]
        p = e["pos"]
        ch = alpha.CLASSES[e["cls"]][0] if e["cls"] else ""
        if e["op"] == "prefix":
            t = s[:p]
        elif e["op"] == "del":
            t = s[: p - 1] + s[p:]
        elif e["op"] == "ins":
            t = s[:p] + ch + s[p:]
        else:
            t = s[: p - 1] + ch + s[p:]
        res.append({"src": t, "seed": e["seed"] - 1, "op": e["op"], "pos": p, "cls": e["cls"]})
    os.remove(out)
    res.sort(key=lambda d: (d["seed"], d["op"], d["pos"], d["cls"]))
    return res


def editgen_raw(run: Run, lens: list[int], repl: list[str], ops, name="tokedit") -> list[dict]:
    """EditGen over abstract seeds given by their lengths; returns the raw edit records
    {"seed" (0-based), "op", "pos", "cls"}."""
    out = os.path.join(run.dir, name + ".ndjson")
    cfg = "INIT Init\nNEXT Next\nINVARIANT Export\nCHECK_DEADLOCK FALSE\n"
    run_tlc(run, "EditGen", cfg, env={"OUT": out}, name=name, consts={"SeedLens": lens, "Repl": set(repl), "Ops": set(ops)})
    res = [{"seed": e["seed"] - 1, "op": e["op"], "pos": e["pos"], "cls": e["cls"]} for e in read_export(out)]
    os.remove(out)
    res.sort(key=lambda d: (d["seed"], d["op"], d["pos"], d["cls"]))
    return res


def apply_edit(seq: list, e: dict) -> list:
    """apply an EditGen record to a sequence (characters or tokens)"""
    p, op = e["pos"], e["op"]
    if op == "prefix":
        return seq[:p]
    if op == "del":
        return seq[: p - 1] + seq[p:]
    if op == "ins":
        return seq[:p] + [e["cls"]] + seq[p:]
    if op == "rep":
        return seq[: p - 1] + [e["cls"]] + seq[p:]
    if op == "dup":
        return seq[:p] + [seq[p - 1]] + seq[p:]
    if op == "swap":
        return seq[: p - 1] + [seq[p], seq[p - 1]] + seq[p + 1:]
    raise ValueError(op)


def alltok(run: Run, vocab: list[str], maxlen: int, name="alltok") -> list[list[str]]:
    """every token string of length 1..maxlen over the vocabulary (CharGen over tokens)"""
    return chargen(run, vocab, maxlen, minlen=1, name=name)
