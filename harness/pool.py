"""Run operations of harness.impl against the real code in worker subprocesses.

Each worker is a fresh interpreter with the repository under test first on sys.path.  Cases are
sent in batches; the worker answers one line per case and arms an interval timer per case (soft
limit -> {"hang": True}).  If a line does not arrive within the hard deadline the worker is
killed (a stuck C-level call cannot hide), the case is marked a hang candidate and the rest of
the batch is re-queued.  Hang candidates are re-run alone once with a doubled limit before they
are reported, so machine load never turns into a verdict.
"""
from __future__ import annotations

import json
import os
import subprocess
import threading

from .core import NCPU, PY, REPO, VERIF, MachineryError


def _spawn(env_extra=None, pyargs=None):
    env = dict(os.environ)
    env.update({"PYTHONPATH": VERIF, "VERIF_REPO": REPO, "PYTHONDONTWRITEBYTECODE": "1", "PYTHONHASHSEED": "0"})
    env.update(env_extra or {})
    return subprocess.Popen(
        [PY, *(pyargs or []), "-m", "harness.worker"], stdin=subprocess.PIPE, stdout=subprocess.PIPE,
        stderr=subprocess.DEVNULL, env=env, cwd=VERIF, text=True, bufsize=1,
    )


def _readline(proc, deadline):
    box = []

    def rd():
        try:
            box.append(proc.stdout.readline())
        except Exception:  # noqa: BLE001
            box.append("")

    th = threading.Thread(target=rd, daemon=True)
    th.start()
    th.join(deadline)
    if th.is_alive() or not box or not box[0]:
        return None
    return box[0]


class _Worker(threading.Thread):
    def __init__(self, tasks, results, lock, op, cases, limit, env_extra, pyargs, fresh=False, budget=None):
        super().__init__(daemon=True)
        self.fresh = fresh
        self.budget = budget      # shared [hangs seen so far, limit]: past the limit no further batch is started
        self.tasks, self.results, self.lock = tasks, results, lock
        self.op, self.cases, self.limit = op, cases, limit
        self.env_extra, self.pyargs = env_extra, pyargs
        self.error = None

    def run(self):
        try:
            self._run()
        except Exception as ex:  # noqa: BLE001
            self.error = ex

    def _next(self):
        with self.lock:
            if self.budget is not None and self.budget[0] >= self.budget[1]:
                return None
            return self.tasks.pop() if self.tasks else None

    def _count_hang(self, r):
        if self.budget is None or not isinstance(r, dict):
            return
        if r.get("hang") or any(isinstance(v, dict) and v.get("hang") for v in r.values()):
            with self.lock:
                self.budget[0] += 1

    def _kill(self, proc):
        try:
            proc.kill()
            proc.wait()
        except Exception:  # noqa: BLE001
            pass

    def _run(self):
        proc = None
        while True:
            batch = self._next()
            if batch is None:
                break
            if self.fresh and proc is not None:
                self._kill(proc)
                proc = None
            if proc is None or proc.poll() is not None:
                proc = _spawn(self.env_extra, self.pyargs)
            msg = json.dumps({"op": self.op, "idx": batch, "cases": [self.cases[i] for i in batch], "limit": self.limit})
            try:
                proc.stdin.write(msg + "\n")
                proc.stdin.flush()
            except (BrokenPipeError, OSError):
                self._kill(proc)
                proc = None
                self.results[batch[0]] = {"worker_died": True}
                if batch[1:]:
                    with self.lock:
                        self.tasks.append(batch[1:])
                continue
            for j, i in enumerate(batch):
                line = _readline(proc, self.limit * 6 + 15)
                bad = None
                if line is None:
                    bad = {"hang": True, "hard": True}
                else:
                    try:
                        r = json.loads(line)
                        assert r["i"] == i
                        self.results[i] = r["r"]
                        self._count_hang(r["r"])
                    except Exception:  # noqa: BLE001
                        bad = {"worker_died": True, "raw": (line or "")[:200]}
                if bad is not None:
                    self._kill(proc)
                    proc = None
                    self.results[i] = bad
                    self._count_hang(bad)
                    rest = batch[j + 1:]
                    if rest:
                        with self.lock:
                            self.tasks.append(rest)
                    break
        if proc is not None:
            try:
                proc.stdin.close()
                proc.wait(timeout=5)
            except Exception:  # noqa: BLE001
                self._kill(proc)


HANG_CONFIRM_CAP = 48


def run_ops(op: str, cases: list, limit: float = 4.0, jobs: int | None = None, env_extra=None, pyargs=None,
            batch: int = 25, confirm_hangs: bool = True, fresh: bool = False, hang_budget: int | None = None) -> list:
    """Run impl.op_<op>(case) for every case; returns the results in order.  With hang_budget, the run stops handing out
    work once that many observations timed out (an implementation that hangs on thousands of inputs would otherwise cost
    hours); the cases not run come back as {"skipped_after_hangs": True}."""
    n = len(cases)
    if n == 0:
        return []
    results: list = [None] * n
    jobs = max(1, min(jobs or NCPU, (n + batch - 1) // batch))
    tasks = [list(range(s, min(n, s + batch))) for s in range(0, n, batch)][::-1]
    lock = threading.Lock()
    budget = [0, hang_budget] if hang_budget else None
    ws = [_Worker(tasks, results, lock, op, cases, limit, env_extra, pyargs, fresh, budget) for _ in range(jobs)]
    for w in ws:
        w.start()
    for w in ws:
        w.join()
    for w in ws:
        if w.error:
            raise MachineryError(f"worker thread failed: {w.error!r}")
    if budget is not None and budget[0] >= budget[1]:
        for i, r in enumerate(results):
            if r is None:
                results[i] = {"skipped_after_hangs": True}
    redo = [i for i, r in enumerate(results) if isinstance(r, dict) and (r.get("hang") or r.get("worker_died"))]
    if redo and confirm_hangs:
        # re-run hang candidates alone-ish (few jobs, doubled limit): load must not become a verdict
        for i in redo[HANG_CONFIRM_CAP:]:
            if results[i].get("hang"):
                results[i]["unconfirmed"] = True
        sub = redo[:HANG_CONFIRM_CAP]
        res2 = run_ops(op, [cases[i] for i in sub], limit=limit * 2, jobs=4, env_extra=env_extra, pyargs=pyargs,
                       batch=1, confirm_hangs=False)
        for i, r in zip(sub, res2):
            results[i] = r
    for i, r in enumerate(results):
        if r is None:
            raise MachineryError(f"no result for case {i}")
        if isinstance(r, dict) and r.get("worker_died"):
            raise MachineryError(f"worker died on case {i}: {cases[i]!r} {r}")
        if isinstance(r, dict) and r.get("impl_error"):
            raise MachineryError(f"harness op {op} failed on case {i} {cases[i]!r}: {r['impl_error']}")
    return results
