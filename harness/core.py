"""Core of the verification harness: paths, run context, verdicts, findings, evidence.

Exit codes of a check: 0 = property held on everything explored (KNOWN-FINDING lines allowed),
1 = at least one VIOLATION line printed, 2 = machinery failure (never a verdict).
"""
from __future__ import annotations

import hashlib
import json
import os
import shutil
import sys
import time

VERIF = os.path.dirname(os.path.dirname(os.path.abspath(__file__)))
REPO = os.environ.get("VERIF_REPO", "/repo")
PY = "/venv/bin/python"
SEED = int(os.environ.get("VERIF_SEED", "0") or 0)
NCPU = int(os.environ.get("VERIF_JOBS", "0") or 0) or min(16, os.cpu_count() or 4)
SPEC = os.path.join(VERIF, "spec")
OUT = os.path.join(VERIF, "out")


class MachineryError(Exception):
    """Something in the harness/TLC failed; never a verdict about the code."""


def sha(obj) -> str:
    return hashlib.sha1(json.dumps(obj, sort_keys=True, default=str).encode()).hexdigest()[:12]


def load_findings() -> list[dict]:
    p = os.path.join(VERIF, "known_findings.json")
    if not os.path.exists(p):
        return []
    return json.load(open(p))["findings"]


class Run:
    """One execution of one check (property, tier)."""

    def __init__(self, pid: str, tier: str, level: str = "model_checking"):
        self.pid, self.tier, self.level = pid, tier, level
        self.t0 = time.time()
        self.dir = os.path.join(OUT, f"{pid}-{tier}-{os.getpid()}")
        shutil.rmtree(self.dir, ignore_errors=True)
        os.makedirs(self.dir, exist_ok=True)
        self.replay_dir = os.path.join(OUT, "replays" + os.environ.get("VERIF_REPLAY_TAG", ""), pid)
        os.makedirs(self.replay_dir, exist_ok=True)
        self.states = 0
        self.transitions = 0
        self.traces = 0
        self.evaluations = 0
        self.distinct: set[str] = set()
        self.samples: list = []
        self.violations: list[dict] = []
        self.known_hits: dict[str, int] = {}
        self.drift: dict[str, int] = {}
        self.extra: dict = {}
        self.tlc_runs: list[dict] = []
        self.assumptions: list[str] = []
        self.findings = [f for f in load_findings() if f["property"] == pid]
        self.rule = ""
        self.exhaustive = False
        self._matchers = None

    # ---- bookkeeping -------------------------------------------------------------------
    def note(self, key: str, n: int = 1) -> None:
        self.extra[key] = self.extra.get(key, 0) + n

    def sample(self, obj, cap: int = 12) -> None:
        if len(self.samples) < cap:
            self.samples.append(obj)

    def count_case(self, key, nontrivial: bool = True) -> None:
        self.evaluations += 1
        if nontrivial:
            self.distinct.add(key if isinstance(key, str) and len(key) < 40 else sha(key))

    def add_tlc(self, stats: dict) -> None:
        self.states += stats.get("distinct", 0)
        self.transitions += stats.get("generated", 0)
        self.tlc_runs.append({k: stats.get(k) for k in ("module", "cfg", "generated", "distinct", "depth", "wall_s", "mode")})

    # ---- verdicts ----------------------------------------------------------------------
    def matchers(self):
        if self._matchers is None:
            from . import findings as F

            self._matchers = F
        return self._matchers

    def violation(self, case: dict, clause: str, detail=None, key=None) -> bool:
        """Record a property violation observed on the real code.  Returns True if it is a new
        violation, False if fully explained by a listed known finding."""
        rec = {"property": self.pid, "clause": clause, "case": case, "detail": detail}
        for f in self.findings:
            if f.get("status") != "known":
                continue
            if self.matchers().explains(f, rec):
                self.known_hits[f["id"]] = self.known_hits.get(f["id"], 0) + 1
                return False
        k = sha(key) if key else sha([clause, case])
        if any(v["key"] == k for v in self.violations):
            return True
        path = os.path.join(self.replay_dir, f"{k}.json")
        rec["replay_cmd"] = f"cd {VERIF} && bin/check {self.pid} --replay {path}"
        with open(path, "w") as fh:
            json.dump(rec, fh, indent=1, default=str)
        self.violations.append({"key": k, "path": path, "clause": clause})
        return True

    def finish(self) -> int:
        wall = time.time() - self.t0
        cov = {
            "states": self.states,
            "transitions": self.transitions,
            "traces_validated_against_impl": self.traces,
            "evaluations": self.evaluations,
            "distinct_nontrivial": len(self.distinct),
            "rule": self.rule,
            "samples": self.samples or [],
            "exhaustive": self.exhaustive,
            "tlc_runs": self.tlc_runs,
            "known_finding_hits": self.known_hits,
            "model_drift": self.drift,
        }
        cov.update(self.extra)
        ev = {
            "property_id": self.pid,
            "tier": self.tier,
            "seed": SEED,
            "level": self.level,
            "coverage": cov,
            "assumptions": self.assumptions,
            "wall_s": round(wall, 2),
            "violations": len(self.violations),
            "repo": REPO,
        }
        # evidence/ is only ever written from runs against /repo itself (seed tests use a scratch worktree)
        evdir = os.path.join(VERIF, "evidence") if os.path.realpath(REPO) == "/repo" and self.pid[1:].isdigit() else os.path.join(OUT, "evidence-scratch")
        os.makedirs(evdir, exist_ok=True)
        with open(os.path.join(evdir, f"{self.pid}.json"), "w") as fh:
            json.dump(ev, fh, indent=1, default=str)
        for f in self.findings:
            if f.get("status") == "known" and self.known_hits.get(f["id"]):
                print(f"KNOWN-FINDING: property={self.pid} {f['id']}: {f['what']} ({self.known_hits[f['id']]} cases)")
        for k, n in sorted(self.drift.items()):
            print(f"model-drift (not a verdict): {k}: {n}", file=sys.stderr)
        shown = 0
        for v in self.violations:
            if shown < 25:
                print(f"VIOLATION property={self.pid} replay={v['path']}  # {v['clause']}")
            shown += 1
        if shown > 25:
            print(f"... {shown - 25} more violations (replay files under {self.replay_dir})")
        print(
            f"[{self.pid} {self.tier}] evaluations={self.evaluations} distinct={len(self.distinct)} "
            f"tlc_states={self.states} traces={self.traces} violations={len(self.violations)} wall={wall:.1f}s"
        )
        shutil.rmtree(self.dir, ignore_errors=True)
        return 1 if self.violations else 0
