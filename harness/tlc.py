"""Running TLC: generator configurations (spec -> cases), model-level checks, and batch trace
validation (recorded executions of the real code -> verdict per trace).
"""
from __future__ import annotations

import json
import os
import re
import shutil
import subprocess
import time

from .core import NCPU, SPEC, MachineryError, Run

JAR = "/opt/veriftools/tla/tla2tools.jar:/opt/veriftools/tla/CommunityModules-deps.jar"


class RawTla:
    def __init__(self, text: str):
        self.text = text


def tla_value(v) -> str:
    """Python value -> TLA+ constant expression (for cfg-free constant modules)."""
    if isinstance(v, bool):
        return "TRUE" if v else "FALSE"
    if isinstance(v, int):
        return str(v)
    if isinstance(v, str):
        return '"' + v.replace("\\", "\\\\").replace('"', '\\"').replace("\n", "\\n").replace("\t", "\\t").replace("\r", "\\r").replace("\f", "\\f") + '"'
    if isinstance(v, (list, tuple)):
        return "<<" + ", ".join(tla_value(x) for x in v) + ">>"
    if isinstance(v, (set, frozenset)):
        return "{" + ", ".join(sorted(tla_value(x) for x in v)) + "}"
    if isinstance(v, dict):
        if not v:
            return "<<>>"
        return "[" + ", ".join(f"{k} |-> {tla_value(x)}" for k, x in v.items()) + "]"
    raise TypeError(type(v))


def run_tlc(
    run: Run,
    module: str,
    cfg: str,
    env: dict | None = None,
    workers: int | None = None,
    extra_lib: list[str] | None = None,
    simulate: str | None = None,
    depth: int | None = None,
    timeout: int = 3600,
    expect_violation: bool = False,
    name: str = "",
    seed: int | None = None,
    heap: str = "6g",
    consts: dict | None = None,
) -> dict:
    """Run TLC on spec/<module>.tla (or an absolute path) with cfg text. Returns stats.
    Raises MachineryError on anything that is not 'ok' or 'invariant violated'."""
    name = name or module
    mpath = module if module.endswith(".tla") else os.path.join(SPEC, module + ".tla")
    if consts:
        # constants that the cfg syntax cannot express (sequences, records) go through a wrapper module
        base = os.path.splitext(os.path.basename(mpath))[0]
        wname = "MC_" + re.sub(r"\W", "_", name)
        body = "\n".join(f"c_{k} == {tla_value(v) if not isinstance(v, RawTla) else v.text}" for k, v in consts.items())
        with open(os.path.join(run.dir, wname + ".tla"), "w") as fh:
            fh.write(f"---- MODULE {wname} ----\nEXTENDS {base}\n{body}\n====\n")
        cfg = "CONSTANTS\n" + "\n".join(f" {k} <- c_{k}" for k in consts) + "\n" + cfg
        mpath = os.path.join(run.dir, wname + ".tla")
    cfgp = os.path.join(run.dir, f"{name}.cfg")
    with open(cfgp, "w") as fh:
        fh.write(cfg)
    meta = os.path.join(run.dir, f"meta-{name}")
    libs = [SPEC, os.path.join(SPEC, "gen"), run.dir] + (extra_lib or [])
    jtmp = os.path.join(run.dir, f"jtmp-{name}")  # TLC leaves an empty tlc-<n> directory in java.io.tmpdir on every start
    os.makedirs(jtmp, exist_ok=True)
    cmd = [
        "java", "-XX:+UseParallelGC", "-Xss256m", f"-Xmx{heap}", "-Djava.io.tmpdir=" + jtmp, "-DTLA-Library=" + ":".join(libs),
        "-cp", JAR, "tlc2.TLC", "-workers", str(workers or NCPU), "-metadir", meta,
        "-noGenerateSpecTE", "-config", cfgp,
    ]
    if simulate:
        cmd += ["-simulate", simulate]
    if depth:
        cmd += ["-depth", str(depth)]
    if seed is not None:
        cmd += ["-seed", str(seed)]
    cmd.append(mpath)
    e = dict(os.environ)
    e.update({k: str(v) for k, v in (env or {}).items()})
    t0 = time.time()
    try:
        p = subprocess.run(cmd, env=e, capture_output=True, text=True, timeout=timeout, cwd=run.dir)
    except subprocess.TimeoutExpired as ex:
        raise MachineryError(f"TLC timeout on {name}") from ex
    finally:
        shutil.rmtree(jtmp, ignore_errors=True)
    out = p.stdout + p.stderr
    logp = os.path.join(run.dir, f"{name}.tlc.log")
    with open(logp, "w") as fh:
        fh.write(out)
    st = {"module": os.path.basename(mpath), "cfg": name, "wall_s": round(time.time() - t0, 1), "rc": p.returncode,
          "mode": "simulate" if simulate else "bfs", "log": logp, "out": out}
    m = re.findall(r"(\d+) states generated, (\d+) distinct states found", out)
    if m:
        st["generated"], st["distinct"] = int(m[-1][0]), int(m[-1][1])
    m = re.search(r"depth of the complete state graph search is (\d+)", out)
    if m:
        st["depth"] = int(m.group(1))
    if simulate:
        m = re.findall(r"Progress: (\d+) states checked, (\d+) traces generated", out)
        if m:
            st["generated"] = st["distinct"] = int(m[-1][0])
            st["sim_traces"] = int(m[-1][1])
    st["violated"] = None
    m = re.search(r"Invariant (\w+) is violated", out) or re.search(r"Action property (\w+) is violated", out) or \
        re.search(r"Temporal properties were violated", out)
    if m:
        st["violated"] = m.group(1) if m.groups() else "temporal"
    ok_rc = (0,) if not expect_violation else (0, 12, 13)
    if p.returncode not in ok_rc and not (p.returncode in (12, 13) and st["violated"]):
        raise MachineryError(f"TLC failed on {name} rc={p.returncode}: see {logp}\n" + out[-3000:])
    if "generated" not in st:
        raise MachineryError(f"TLC output without statistics for {name}: {logp}")
    run.add_tlc(st)
    return st


def read_export(path: str, keep=None) -> list[dict]:
    """Read lines written by CSVWrite("%1$s", <<ToJson(x)>>, file): each line is a JSON string
    holding JSON.  keep: a function applied to every record as it is read (to drop what the caller does not need)."""
    res = []
    if not os.path.exists(path):
        return res
    with open(path) as fh:
        for ln in fh:
            ln = ln.strip()
            if not ln:
                continue
            try:
                v = json.loads(ln)
                if isinstance(v, str):
                    v = json.loads(v)
            except json.JSONDecodeError as ex:
                raise MachineryError(f"malformed export line in {path}: {ln[:200]}") from ex
            res.append(_unmark(v) if keep is None else keep(_unmark(v)))
    return res


_MARK = re.compile(r"~u([0-9a-fA-F]{4,6})~")


def _unmark(v):
    """TLA+ sources stay ASCII: a non-ASCII character is written ~uXXXX~ in a spec string and
    restored here."""
    if isinstance(v, str):
        return _MARK.sub(lambda m: chr(int(m.group(1), 16)), v) if "~u" in v else v
    if isinstance(v, list):
        return [_unmark(x) for x in v]
    if isinstance(v, dict):
        return {k: _unmark(x) for k, x in v.items()}
    return v


def validate_traces(
    run: Run,
    module: str,
    traces: list[dict],
    cfg_extra: str = "",
    workers: int = 4,
    name: str = "",
    chunk: int = 40000,
    env: dict | None = None,
) -> dict[int, tuple[str, int]]:
    """Batch trace validation.  Every trace is a dict with an integer 'id' (unique) and whatever
    the trace specification reads.  The trace spec (see spec/Trace*.tla) picks tid in Init, walks
    the trace, and writes one verdict line '<id> <clause> <k>' per trace via CSVWrite to
    IOEnv.VERDICT_FILE: clause = "ok" or the name of the first failing clause at step k.
    Returns {id: (clause, k)}; a trace without a verdict line is a machinery failure."""
    name = name or module
    verdicts: dict[int, tuple[str, int]] = {}
    for ci in range(0, len(traces), chunk):
        part = traces[ci: ci + chunk]
        tf = os.path.join(run.dir, f"{name}-{ci}.traces.ndjson")
        vf = os.path.join(run.dir, f"{name}-{ci}.verdicts.txt")
        with open(tf, "w") as fh:
            for t in part:
                fh.write(json.dumps(t, separators=(",", ":")) + "\n")
        cfg = "INIT TInit\nNEXT TNext\nINVARIANT TVerdict\nCHECK_DEADLOCK FALSE\n" + cfg_extra
        if os.path.exists(vf):      # CSVWrite appends: verdicts of an earlier call under the same name must not be read again
            os.remove(vf)
        e = {"TRACE_FILE": tf, "VERDICT_FILE": vf}
        e.update(env or {})
        run_tlc(run, module, cfg, env=e, workers=workers, name=f"{name}-{ci}")
        got = {}
        if os.path.exists(vf):
            with open(vf) as fh:
                for ln in fh:
                    parts = ln.split()
                    if len(parts) < 3:
                        raise MachineryError(f"bad verdict line {ln!r} in {vf}")
                    got[int(parts[0].strip('"'))] = (parts[1].strip('"'), int(parts[2].strip('"')))
        for t in part:
            if t["id"] not in got:
                raise MachineryError(f"trace id {t['id']} got no verdict from {module} ({vf})")
        ids = {t["id"] for t in part}
        verdicts.update({k: v for k, v in got.items() if k in ids})
        run.traces += len(part)
        os.remove(tf)
    return verdicts
