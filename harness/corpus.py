"""Pinned corpus: the repository's test data (copied at the baseline), the inputs its own tests
use (harvested once with harness/harvest.py), hand-written xonsh seeds, and CPython's standard
library split into top-level statements.  Plus layout transformations of a program."""
from __future__ import annotations

import ast
import io
import json
import os
import random
import sysconfig
import tokenize

from .core import SEED, VERIF

CORPUS = os.path.join(VERIF, "corpus")


def data_files() -> list[tuple[str, str]]:
    out = []
    d = os.path.join(CORPUS, "py")
    for n in sorted(os.listdir(d)):
        out.append((n, open(os.path.join(d, n), encoding="utf-8").read()))
    return out


def harvested() -> list[dict]:
    return json.load(open(os.path.join(CORPUS, "harvest.json")))


def layout_seeds() -> list[str]:
    return json.load(open(os.path.join(CORPUS, "py_layout_seeds.json")))


def invalid_seeds() -> list[str]:
    return json.load(open(os.path.join(CORPUS, "invalid_seeds.json")))


def xonsh_seeds() -> list[str]:
    return json.load(open(os.path.join(CORPUS, "xonsh_seeds.json")))


def programs(cap: int = 10**9, modes=("exec", "eval")) -> list[tuple[str, str]]:
    """(name, source) pairs, deterministic order, capped (stratified sample by seed)."""
    out = [(n, s) for n, s in data_files()]
    out += [(f"xsh{i}", s) for i, s in enumerate(xonsh_seeds())]
    out += [(f"lay{i}", s) for i, s in enumerate(layout_seeds())]
    hv = [h for h in harvested() if h["mode"] in modes]
    rng = random.Random(SEED + 5)
    if len(hv) > cap:
        hv = rng.sample(hv, cap)
    out += [(f"hv{i}", h["src"]) for i, h in enumerate(hv)]
    return out


def layouts(src: str) -> list[tuple[str, str]]:
    """Layout variants of a text (same program when the text is a program)."""
    out = []
    if "\n" in src:
        out.append(("crlf", src.replace("\r\n", "\n").replace("\n", "\r\n")))
    if src.endswith("\n"):
        out.append(("nofinalnl", src.rstrip("\n")))
    else:
        out.append(("finalnl", src + "\n"))
    if "    " in src:
        out.append(("tabs", _retab(src)))
    out.append(("trailing_comment", src.rstrip("\n") + "  # c\n"))
    out.append(("ff", "\f" + src))
    return out


def _retab(src: str) -> str:
    lines = []
    for ln in src.split("\n"):
        stripped = ln.lstrip(" ")
        n = len(ln) - len(stripped)
        lines.append("\t" * (n // 4) + " " * (n % 4) + stripped)
    return "\n".join(lines)


def has_at_paren(src: str) -> bool:
    """'@(' digraph outside strings/comments (excluded from the C01/C09 domain)"""
    try:
        prev = None
        for t in tokenize.generate_tokens(io.StringIO(src).readline):
            if prev is not None and prev.type == tokenize.OP and prev.string == "@" and t.type == tokenize.OP \
                    and t.string == "(" and prev.end == t.start:
                return True
            prev = t
    except (tokenize.TokenError, SyntaxError, IndentationError):
        return "@(" in src
    return False


def has_fstring(src: str) -> bool:
    try:
        for t in tokenize.generate_tokens(io.StringIO(src).readline):
            if t.type == tokenize.FSTRING_START:
                return True
    except (tokenize.TokenError, SyntaxError, IndentationError):
        return True
    return False


_STDLIB = None


def stdlib_files() -> list[str]:
    global _STDLIB
    if _STDLIB is None:
        root = sysconfig.get_paths()["stdlib"]
        fs = []
        for dp, dn, fn in os.walk(root):
            dn[:] = sorted(d for d in dn if d not in ("site-packages", "__pycache__", "test", "tests", "idlelib", "lib2to3"))
            for f in sorted(fn):
                if f.endswith(".py"):
                    fs.append(os.path.join(dp, f))
        _STDLIB = fs
    return _STDLIB


def stdlib_statements(nfiles: int, max_len: int = 1500, seed_off: int = 0) -> list[tuple[str, str]]:
    """Top-level statements (source segments) of a seeded sample of stdlib files."""
    rng = random.Random(SEED + 11 + seed_off)
    fs = stdlib_files()
    fs = rng.sample(fs, min(nfiles, len(fs)))
    out = []
    for f in fs:
        try:
            src = open(f, encoding="utf-8").read()
            tree = ast.parse(src)
        except (SyntaxError, UnicodeDecodeError, ValueError, RecursionError):
            continue
        lines = src.splitlines(keepends=True)
        for i, st in enumerate(tree.body):
            start = st.lineno - 1
            if getattr(st, "decorator_list", None):
                start = min(start, st.decorator_list[0].lineno - 1)
            seg = "".join(lines[start: st.end_lineno])
            if not seg.endswith("\n"):
                seg += "\n"
            if len(seg) <= max_len:
                out.append((f"{os.path.basename(f)}:{i}", seg))
    return out
