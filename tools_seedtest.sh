#!/bin/sh
# usage: tools_seedtest.sh <seed dir (with patch.diff, demo.py)> <tier> <check ids...>
# applies the patch in a scratch worktree of /repo HEAD and runs the given checks against it
S="$(realpath "$1")"; TIER="$2"; shift 2
WT=/tmp/seedwt-$$
git -C /repo worktree add -q --detach "$WT" HEAD || exit 2
if ! git -C "$WT" apply "$S/patch.diff" 2>/tmp/seedapply.$$; then
  git -C "$WT" checkout -q -- . ; git -C "$WT" clean -fdq
  if ! (cd "$WT" && patch -p1 -s --fuzz=3 < "$S/patch.diff" >/dev/null 2>&1) || grep -rlE '^(<<<<<<<|>>>>>>>) ' "$WT" --include=*.py --include=*.gram >/dev/null 2>&1 || [ -n "$(find "$WT" -name '*.rej' | head -1)" ]; then
    echo "PATCH-DOES-NOT-APPLY $S"; cat /tmp/seedapply.$$; git -C /repo worktree remove --force "$WT"; rm -f /tmp/seedapply.$$; exit 3; fi
fi
if [ -f "$S/demo.py" ]; then /venv/bin/python "$S/demo.py" "$WT" >/dev/null 2>&1; echo "demo_exit_changed=$?"; /venv/bin/python "$S/demo.py" /repo >/dev/null 2>&1; echo "demo_exit_unchanged=$?"; fi
for C in "$@"; do
  VERIF_REPLAY_TAG=-seed VERIF_REPO="$WT" /verif/bin/check "$C" "$TIER" > /tmp/seedrun.$$ 2>&1; rc=$?
  echo "check=$C rc=$rc $(grep -c '^VIOLATION' /tmp/seedrun.$$) violations; $(grep -m1 '^VIOLATION' /tmp/seedrun.$$ | sed 's/.*# //')"
  grep -E "MACHINERY" /tmp/seedrun.$$ | head -3
done
git -C /repo worktree remove --force "$WT"; rm -f /tmp/seedrun.$$ /tmp/seedapply.$$
