------------------------------ MODULE Total ------------------------------
(***************************************************************************)
(* C03 -- totality -- as a trace specification over recorded outcomes.     *)
(* A trace is [id, evs] with events                                        *)
(*   [e |-> "tok",   out, sanc]            generate_tokens(text) exhausted  *)
(*   [e |-> "parse", mode, entry, out, sanc, rtype]  parse_string/parse_file *)
(* out is "ok"/"tree", "none", "hang", or "exc" with sanc = the exception  *)
(* is SyntaxError (incl. IndentationError/TabError) or the tokenizer's     *)
(* TokenError.  rtype is the class name of the returned object.            *)
(***************************************************************************)
EXTENDS Naturals, Sequences, TLC, Json, CSV, IOUtils
Traces == ndJsonDeserialize(IOEnv.TRACE_FILE)
VARIABLES tid, k, verdict
T == Traces[tid]
Expected(mode) == IF mode = "eval" THEN "Expression" ELSE "Module"
Clause(ev) ==
  IF ev.out = "hang" THEN "terminates_" \o ev.e
  ELSE IF ev.out = "exc" /\ ~ev.sanc THEN "exception_class_" \o ev.e
  ELSE IF ev.e = "parse" /\ ev.out = "none" THEN "returned_none"
  ELSE IF ev.e = "parse" /\ ev.out = "tree" /\ ev.rtype # Expected(ev.mode) THEN "returned_wrong_type"
  ELSE IF ev.out \notin {"ok", "tree", "exc"} THEN "unknown_outcome"
  ELSE "ok"
TInit == tid \in 1..Len(Traces) /\ k = 1 /\ verdict = "run"
Step == /\ verdict = "run" /\ k <= Len(T.evs)
        /\ LET c == Clause(T.evs[k]) IN
             /\ verdict' = IF c = "ok" THEN "run" ELSE c
             /\ k' = IF c = "ok" THEN k + 1 ELSE k
        /\ tid' = tid
Finish == verdict = "run" /\ k > Len(T.evs) /\ verdict' = "ok" /\ UNCHANGED <<tid, k>>
TNext == Step \/ Finish
TVerdict == (verdict # "run") => CSVWrite("%1$s %2$s %3$s", <<T.id, verdict, k>>, IOEnv.VERDICT_FILE)
=============================================================================
