------------------------------ MODULE PegMachine ------------------------------
(***************************************************************************)
(* The packrat machine the runtime implements (peg_parser/subheader.py:    *)
(* memoize, memoize_left_rec, logger), as an evaluator that threads the    *)
(* memo cache through the whole parse and logs one event per decorated     *)
(* rule invocation -- exactly the lines the real parser prints with        *)
(* verbose=True, which is how this model is bound to the code without any  *)
(* hook: harness/props/c17.py runs the generated parsers in verbose mode,  *)
(* parses the printed trace into events and compares it with MLog.         *)
(*                                                                         *)
(*   memoize           (memo) rules that are not left-recursive: a cache   *)
(*                     hit returns the cached result and end position      *)
(*   memoize_left_rec  leaders: prime the cache with failure, re-evaluate  *)
(*                     while the result gets longer, keep the last one;    *)
(*                     re-entrant calls at the same position hit the cache *)
(*   logger            non-leader rules of a left-recursive cycle: never   *)
(*                     cached                                              *)
(*   other rules       evaluated silently                                  *)
(* Checked by TLC for every grammar of the family and every token string:  *)
(*   MachineRefinesSem  result, end position and value equal Peg!Sem       *)
(*                      (hence the memo cache is transparent)              *)
(*   CacheSound         every cached entry of a non-left-recursive rule    *)
(*                      equals the semantics of that rule at that position *)
(* Events: <<"enter"|"lenter"|"lrenter", r, i>>, <<"exit"|"lexit"|"lrexit", *)
(* r, ok>>, <<"hit"|"fresh", r, ok>>, <<"iter", r, i, depth, ok, end>>.     *)
(***************************************************************************)
EXTENDS Peg

\* machine state: memo = set of <<r, i, result>>, log = sequence of events
Lookup(memo, r, i) == {m \in memo : m[1] = r /\ m[2] = i}
Store(memo, r, i, res) == {m \in memo : ~(m[1] = r /\ m[2] = i)} \cup {<<r, i, res>>}
IsOk(res) == res.st = "ok"
R(res, s) == [res |-> res, s |-> s]
LogTo(s, ev) == [memo |-> s.memo, log |-> Append(s.log, ev)]

RECURSIVE MItem(_, _, _, _, _), MAlt(_, _, _, _, _, _, _), MAlts(_, _, _, _, _), MRule(_, _, _, _, _), MGrow(_, _, _, _, _, _, _, _), MRep(_, _, _, _, _, _), MGRep(_, _, _, _, _, _, _)

MRule(G, W, r, i, s) ==
  LET rule == G.rules[r]  hit == Lookup(s.memo, r, i) IN
  IF rule.leader THEN
     IF hit # {} THEN LET res == (CHOOSE m \in hit : TRUE)[3] IN R(res, LogTo(s, <<"fresh", r, IsOk(res)>>))
     ELSE LET s1 == [memo |-> Store(s.memo, r, i, Fail), log |-> Append(s.log, <<"lrenter", r, i>>)]
              gr == MGrow(G, W, r, i, s1, Fail, i, 1)
              res == gr.res
          IN IF res.st = "raise" THEN gr
             ELSE R(res, [memo |-> Store(gr.s.memo, r, i, res), log |-> Append(gr.s.log, <<"lrexit", r, IsOk(res)>>)])
  ELSE IF rule.lr THEN
     LET a == MAlts(G, W, rule.alts, i, LogTo(s, <<"lenter", r, i>>)) IN
     IF a.res.st = "raise" THEN a ELSE R(a.res, LogTo(a.s, <<"lexit", r, IsOk(a.res)>>))
  ELSE IF rule.memo THEN
     IF hit # {} THEN LET res == (CHOOSE m \in hit : TRUE)[3] IN R(res, LogTo(s, <<"hit", r, IsOk(res)>>))
     ELSE LET a == MAlts(G, W, rule.alts, i, LogTo(s, <<"enter", r, i>>)) IN
          IF a.res.st = "raise" THEN a
          ELSE R(a.res, [memo |-> Store(a.s.memo, r, i, a.res), log |-> Append(a.s.log, <<"exit", r, IsOk(a.res)>>)])
  ELSE MAlts(G, W, rule.alts, i, s)

\* the growing loop of memoize_left_rec: last = best result so far, lastend = its end mark, depth = iteration number
MGrow(G, W, r, i, s, last, lastend, depth) ==
  LET a == MAlts(G, W, G.rules[r].alts, i, s) IN
  IF a.res.st = "raise" THEN a
  ELSE LET endmark == IF IsOk(a.res) THEN a.res.end ELSE i     \* a failed alternative list leaves the mark where it started
           s2 == LogTo(a.s, <<"iter", r, i, depth, IsOk(a.res), endmark - 1>>)
       IN IF ~IsOk(a.res) THEN R(last, s2)
          ELSE IF endmark <= lastend THEN R(last, s2)
          ELSE MGrow(G, W, r, i, [memo |-> Store(s2.memo, r, i, a.res), log |-> s2.log], a.res, endmark, depth + 1)

MAlts(G, W, alts, i, s) ==
  IF alts = <<>> THEN R(Fail, s)
  ELSE LET a == MAlt(G, W, Head(alts).items, Head(alts).tag, i, s, <<<<>>, FALSE>>) IN
       IF a.res.st = "ok" \/ a.res.st = "raise" THEN a
       ELSE IF a.res.cut THEN R(Fail, a.s)
       ELSE MAlts(G, W, Tail(alts), i, a.s)

MAlt(G, W, items, tag, i, s, acc) ==
  IF items = <<>> THEN R(Ok(ActionValue(tag, acc[1]), i), s)
  ELSE LET it == Head(items) IN
       IF it.k = "cut" THEN MAlt(G, W, Tail(items), tag, i, s, <<acc[1], TRUE>>)
       ELSE LET x == MItem(G, W, it, i, s) IN
            IF x.res.st = "raise" THEN x
            ELSE IF x.res.st = "fail" THEN R([st |-> "fail", cut |-> acc[2]], x.s)
            ELSE MAlt(G, W, Tail(items), tag, x.res.end, x.s,
                      <<IF it.k \in {"and", "not", "forced"} THEN acc[1] ELSE Append(acc[1], x.res.val), acc[2]>>)

MItem(G, W, it, i, s) ==
  CASE it.k = "tok"    -> R(IF i <= Len(W) /\ (W[i] = it.t \/ (it.t = "n" /\ W[i] \in G.names)) THEN Ok(W[i], i + 1) ELSE Fail, s)
    [] it.k = "rule"   -> MRule(G, W, it.r, i, s)
    [] it.k = "opt"    -> LET x == MItem(G, W, it.x[1], i, s) IN IF x.res.st = "fail" THEN R(Ok("none", i), x.s) ELSE x
    [] it.k = "star"   -> MRep(G, W, it.x[1], i, s, <<>>)
    [] it.k = "plus"   -> LET x == MRep(G, W, it.x[1], i, s, <<>>) IN IF x.res.st = "ok" /\ x.res.val = <<>> THEN R(Fail, x.s) ELSE x
    [] it.k = "gather" -> LET x == MItem(G, W, it.x[1], i, s) IN
                          IF x.res.st # "ok" THEN x ELSE MGRep(G, W, it.x[1], it.s[1], x.res.end, x.s, <<x.res.val>>)
    [] it.k = "group"  -> MAlts(G, W, it.alts, i, s)
    [] it.k = "and"    -> LET x == MItem(G, W, it.x[1], i, s) IN IF x.res.st = "ok" THEN R(Ok("lookahead", i), x.s) ELSE x
    [] it.k = "not"    -> LET x == MItem(G, W, it.x[1], i, s) IN
                          IF x.res.st = "ok" THEN R(Fail, x.s) ELSE IF x.res.st = "raise" THEN x ELSE R(Ok("lookahead", i), x.s)
    [] it.k = "forced" -> LET x == MItem(G, W, it.x[1], i, s) IN IF x.res.st = "fail" THEN R(Raise, x.s) ELSE x
    [] OTHER           -> R(Fail, s)

MRep(G, W, x, i, s, acc) ==
  LET r == MItem(G, W, x, i, s) IN
  IF r.res.st = "raise" THEN r
  ELSE IF r.res.st = "fail" \/ r.res.end = i THEN R(Ok(acc, i), r.s)
  ELSE MRep(G, W, x, r.res.end, r.s, Append(acc, r.res.val))

MGRep(G, W, x, sep, i, s, acc) ==
  LET p == MItem(G, W, sep, i, s) IN
  IF p.res.st = "raise" THEN p
  ELSE IF p.res.st = "fail" THEN R(Ok(acc, i), p.s)
  ELSE LET r == MItem(G, W, x, p.res.end, p.s) IN
       IF r.res.st = "raise" THEN r
       ELSE IF r.res.st = "fail" THEN R(Ok(acc, i), r.s)
       ELSE MGRep(G, W, x, sep, r.res.end, r.s, Append(acc, r.res.val))

Machine(G, W) == MRule(G, W, 1, 1, [memo |-> {}, log |-> <<>>])

\* ---- checked on every (grammar, token string) state of Peg's generator ----------------------
Strip(res) == IF res.st = "ok" THEN [st |-> "ok", val |-> res.val, end |-> res.end] ELSE [st |-> res.st]
MachineRefinesSem == LET m == Machine(Grammars[g], w)  d == Sem(Grammars[g], w) IN Strip(m.res) = Strip(d)
CacheSound == LET m == Machine(Grammars[g], w) IN
              \A e \in m.s.memo : (~Grammars[g].rules[e[1]].leader /\ m.res.st # "raise") =>
                   Strip(e[3]) = Strip(Rule(Grammars[g], w, e[1], e[2], {}))
MExport == LET m == Machine(Grammars[g], w) IN
           CSVWrite("%1$s", <<ToJson([g |-> g, w |-> w, st |-> m.res.st, log |-> m.s.log])>>, IOEnv.OUT)
=============================================================================
