------------------------------ MODULE EntryModel ------------------------------
(***************************************************************************)
(* C12 -- the two entry points as a small model: how each turns a file's   *)
(* bytes / a string into the sequence of lines handed to the scanner.      *)
(*                                                                         *)
(* Content is a sequence over {"a", "e9" (a non-ASCII letter), "cr", "lf"}. *)
(*   String entry : lines end at "lf" only (io.StringIO.readline), nothing *)
(*                  is translated, decoding is not involved.               *)
(*   File entry   : bytes are decoded with Enc (the encoding open() uses), *)
(*                  and split according to Newline:                        *)
(*                    "universal"  (open() default: cr, cr lf, lf all end  *)
(*                                  a line and are translated to lf)       *)
(*                    "lf"         (newline="\n": as the string entry)     *)
(* FileMode = <<Enc, Newline>> describes the code; the working tree opens  *)
(* the file with <<"utf8", "lf">> since the fix, the baseline used         *)
(* <<"locale", "universal">>.  EntryPointsAgree is the design-level        *)
(* statement of C12: for every content and every locale the two line       *)
(* sequences coincide.  TLC checks it for all contents up to MaxLen.       *)
(***************************************************************************)
EXTENDS Naturals, Sequences, TLC
CONSTANTS MaxLen, Enc, Newline, Locales
Alphabet == {"a", "e9", "cr", "lf"}
VARIABLES content, locale
Init == content = <<>> /\ locale \in Locales
Next == Len(content) < MaxLen /\ \E c \in Alphabet : content' = Append(content, c) /\ UNCHANGED locale

RECURSIVE SplitLf(_, _)
SplitLf(s, cur) ==            \* lines end at lf only, terminators kept
  IF s = <<>> THEN (IF cur = <<>> THEN <<>> ELSE <<cur>>)
  ELSE IF Head(s) = "lf" THEN <<Append(cur, "lf")>> \o SplitLf(Tail(s), <<>>)
  ELSE SplitLf(Tail(s), Append(cur, Head(s)))

RECURSIVE SplitUniversal(_, _)
SplitUniversal(s, cur) ==     \* cr, cr lf and lf end a line and become lf
  IF s = <<>> THEN (IF cur = <<>> THEN <<>> ELSE <<cur>>)
  ELSE IF Head(s) = "lf" THEN <<Append(cur, "lf")>> \o SplitUniversal(Tail(s), <<>>)
  ELSE IF Head(s) = "cr" THEN
        (IF Len(s) > 1 /\ s[2] = "lf" THEN <<Append(cur, "lf")>> \o SplitUniversal(Tail(Tail(s)), <<>>)
         ELSE <<Append(cur, "lf")>> \o SplitUniversal(Tail(s), <<>>))
  ELSE SplitUniversal(Tail(s), Append(cur, Head(s)))

Decodable(s, loc) == Enc = "utf8" \/ loc = "utf8" \/ \A i \in 1..Len(s) : s[i] # "e9"
StringLines(s) == SplitLf(s, <<>>)
FileLines(s, loc) == IF ~Decodable(s, loc) THEN <<"DecodeError">>
                     ELSE IF Newline = "lf" THEN SplitLf(s, <<>>) ELSE SplitUniversal(s, <<>>)
EntryPointsAgree == FileLines(content, locale) = StringLines(content)
=============================================================================
