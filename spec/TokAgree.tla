------------------------------ MODULE TokAgree ------------------------------
(***************************************************************************)
(* C09 / C10 -- agreement of two token streams of the same source: the     *)
(* implementation's (a) and CPython's (b), both already reduced by the     *)
(* documented differences (WS / COMMENT / NL dropped on both sides, all    *)
(* operators one type).  A token is <<ty, text digest, sl, sc, el, ec>>.   *)
(* The relation:                                                           *)
(*   - same number of tokens, same types in the same order                 *)
(*   - NAME / NUMBER / STRING / OP / FSTRING_* : same text, same start and *)
(*     end coordinates                                                     *)
(*   - NEWLINE / INDENT / DEDENT / ENDMARKER : same place in the sequence  *)
(*     (coordinates and text are not compared)                             *)
(* A trace is [id, a, b].  One step per token pair.                        *)
(***************************************************************************)
EXTENDS Naturals, Sequences, TLC, Json, CSV, IOUtils
Traces == ndJsonDeserialize(IOEnv.TRACE_FILE)
VARIABLES tid, k, verdict
T == Traces[tid]
Structural == {"NEWLINE", "INDENT", "DEDENT", "ENDMARKER"}
Max(x, y) == IF x > y THEN x ELSE y
Clause(i) ==
  IF i > Len(T.a) THEN "token_missing"
  ELSE IF i > Len(T.b) THEN "token_extra"
  ELSE LET x == T.a[i]  y == T.b[i] IN
       IF x[1] # y[1] THEN "token_type"
       ELSE IF x[1] \in Structural THEN "ok"
       ELSE IF x[2] # y[2] THEN "token_text"
       ELSE IF <<x[3], x[4]>> # <<y[3], y[4]>> THEN "token_start"
       ELSE IF <<x[5], x[6]>> # <<y[5], y[6]>> THEN "token_end"
       ELSE "ok"
TInit == tid \in 1..Len(Traces) /\ k = 1 /\ verdict = "run"
Step == /\ verdict = "run" /\ k <= Max(Len(T.a), Len(T.b))
        /\ LET c == Clause(k) IN
             /\ verdict' = IF c = "ok" THEN "run" ELSE c
             /\ k' = IF c = "ok" THEN k + 1 ELSE k
        /\ tid' = tid
Finish == verdict = "run" /\ k > Max(Len(T.a), Len(T.b)) /\ verdict' = "ok" /\ UNCHANGED <<tid, k>>
TNext == Step \/ Finish
TVerdict == (verdict # "run") => CSVWrite("%1$s %2$s %3$s", <<T.id, verdict, k>>, IOEnv.VERDICT_FILE)
=============================================================================
