------------------------------ MODULE PassTrace ------------------------------
(***************************************************************************)
(* Trace validation of the two-pass strategy (TwoPass.tla): a trace is one *)
(* recorded call of the real parser,                                       *)
(*   [id, outcome ("tree" | "syntaxerror" | "other"), passes (how often    *)
(*    Parser._parse entered the start rule), inv_off (invalid_* bodies     *)
(*    executed while call_invalid_rules was False), inv_first (executed    *)
(*    before the second pass began), inv_second, inv_unguarded (the three  *)
(*    sites TwoPass.tla names as generated without the guard)]             *)
(* Errors raised by the tokenizer, by a forced token or while evaluating a *)
(* literal end the first pass with an exception of their own: for those    *)
(* (passes = 1, outcome = syntaxerror) only the first two clauses apply.   *)
(***************************************************************************)
EXTENDS Naturals, Sequences, TLC, Json, CSV, IOUtils
Traces == ndJsonDeserialize(IOEnv.TRACE_FILE)
VARIABLES tid, verdict
T == Traces[tid]
Clause ==
  IF T.inv_off > 0 THEN "diagnostic_rule_ran_while_switched_off"
  ELSE IF T.inv_first > 0 THEN "diagnostic_rule_ran_in_the_first_pass"
  ELSE IF T.outcome = "tree" /\ (T.passes # 1 \/ T.inv_second > 0) THEN "tree_not_from_a_single_first_pass"
  ELSE IF T.passes > 2 THEN "more_than_two_passes"
  ELSE "ok"
TInit == tid \in 1..Len(Traces) /\ verdict = "run"
TNext == verdict = "run" /\ verdict' = Clause /\ tid' = tid
TVerdict == (verdict # "run") => CSVWrite("%1$s %2$s %3$s", <<T.id, verdict, 1>>, IOEnv.VERDICT_FILE)
=============================================================================
