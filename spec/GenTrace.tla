------------------------------ MODULE GenTrace ------------------------------
(***************************************************************************)
(* C16 trace validation.  A trace records one real run of the documented   *)
(* generation step (grammar in the working tree -> module), compared with  *)
(* the shipped module:                                                     *)
(*   [id, methods, ref, kw_equal, extra_shipped]                           *)
(* methods = sequence of <<name, generated digest, shipped digest (0 if    *)
(* the shipped module has no such method), helper number (0 for user       *)
(* rules)>> in emission order; ref = the digests of the reference run      *)
(* (seed 0) for RunsAgree; kw_equal = keyword and soft-keyword tables       *)
(* equal as values; extra_shipped = methods only the shipped module has.   *)
(***************************************************************************)
EXTENDS Naturals, Sequences, TLC, Json, CSV, IOUtils
Traces == ndJsonDeserialize(IOEnv.TRACE_FILE)
VARIABLES tid, k, last, verdict
T == Traces[tid]
Clause(m) ==
  IF \E j \in 1..(k - 1) : T.methods[j][1] = m[1] THEN "one_method_per_rule"
  ELSE IF m[4] > 0 /\ m[4] <= last THEN "helper_names_monotone"
  ELSE IF m[3] = 0 THEN "generated_method_missing_from_shipped_module"
  ELSE IF m[2] # m[3] THEN "method_body_differs_from_shipped_module"
  ELSE IF k > Len(T.ref) \/ T.ref[k] # m[2] THEN "runs_disagree"
  ELSE "ok"
TInit == tid \in 1..Len(Traces) /\ k = 1 /\ last = 0 /\ verdict = "run"
Step == /\ verdict = "run" /\ k <= Len(T.methods)
        /\ LET m == T.methods[k]  c == Clause(m) IN
             /\ verdict' = IF c = "ok" THEN "run" ELSE c
             /\ k' = IF c = "ok" THEN k + 1 ELSE k
             /\ last' = IF m[4] > 0 THEN m[4] ELSE last
        /\ tid' = tid
Finish == /\ verdict = "run" /\ k > Len(T.methods)
          /\ verdict' = IF ~T.kw_equal THEN "keyword_tables_differ"
                        ELSE IF T.extra_shipped > 0 THEN "shipped_module_has_methods_the_grammar_does_not_generate"
                        ELSE IF Len(T.ref) # Len(T.methods) THEN "runs_disagree"
                        ELSE "ok"
          /\ UNCHANGED <<tid, k, last>>
TNext == Step \/ Finish
TVerdict == (verdict # "run") => CSVWrite("%1$s %2$s %3$s", <<T.id, verdict, k>>, IOEnv.VERDICT_FILE)
=============================================================================
