------------------------------ MODULE StmtSeq ------------------------------
(***************************************************************************)
(* C14 -- statements parse independently.                                  *)
(*                                                                         *)
(* Kinds is the table of complete top-level statement forms (Python simple *)
(* and compound statements, multi-line tokens, comment / blank lines, and  *)
(* every xonsh statement form).  TLC enumerates every sequence of up to    *)
(* MaxLen kinds drawn from Use.  The composition law the real parser must  *)
(* satisfy for a sequence s1 .. sn with texts t1 .. tn:                    *)
(*    Body(t1 \o .. \o tn) = Body(t1) \o Shift(Body(t2), Lines(t1)) \o ..   *)
(* i.e. no statement changes how the text after its end is parsed.         *)
(* The law itself is evaluated on the recorded trees (AstEq.tla); this     *)
(* module is the generator and states what is composed.                    *)
(***************************************************************************)
EXTENDS Naturals, Sequences, TLC, Json, CSV, IOUtils
CONSTANTS Use, MaxLen
Kinds == <<
  "x = 1\n", "import os, sys as s\n", "a; b = 2; c\n", "if a:\n    b\n", "def f(p, q=1):\n    return p\n",                      \* 1-5
  "class C(B):\n    x = 1\n\n    def m(self):\n        pass\n", "for i in y:\n    pass\nelse:\n    pass\n",                 \* 6-7
  "try:\n    a\nexcept E as e:\n    b\nfinally:\n    c\n", "with a as b, c:\n    d\n", "match x:\n    case [1, *r]:\n        pass\n", \* 8-10
  "@d\ndef g(): pass\n", "async def h():\n    await z\n", "s = '''a\nb'''\n", "t = 1 + \\\n    2\n", "u = [1,\n     2]\n",        \* 11-15
  "v = f'{a}b'\n", "w = f'''{a}\n{b}'''\n", "# c\n", "\n", "$(ls -l)\n",                                                        \* 16-20
  "r = !(echo hi)\n", "$[make -j 4]\n", "$X = 1\n", "${'Y'} = 2\n", "f!(a, b c)\n",                                              \* 21-25
  "with! ctx:\n    body text\n      more\n", "with! ctx: one liner\n", "$(echo! rest of [line])\n", "p = p'/tmp' / pf'{x}'\n", "range?\n", \* 26-30
  "g = `*.py`\n", "a && b || c\n", "del x, y[0]\n", "x: int = 1\n", "type T = int\n",                                           \* 31-35
  "while a: b\n", "if a: b\nelif c: d\nelse: e\n", "k = lambda: (yield)\n", "print(f!(x, y), ![ls])\n", "if c:\n    with! m:\n        raw\n    z = 1\n", \* 36-40
  "    \n", "x = 1  # trailing\n", "\f\n", "def e(): ...\n\n\n", "z = $(echo $(echo @(1)))\n",                                    \* 41-45
  "q = p'/srv' pf'/{u}'\n", "s2 = 'plain' \"text\"\n", "$(reload!)\n", "![reset!]\n", "f!()\n",                               \* 46-50
  "m = f!(a)(b)\n", "$(echo! a) or f!(x)\n", "k = pf'{u}' 'x'\n", "print('a', p'b')\n", "h = range?.index?\n",                 \* 51-55
  "match x:\n    case 'lit' | \"s\":\n        pass\n    case {'k': 1}:\n        pass\n", "d = {'k': 'v'}['k']\n", "open(p'/e' pf'{n}.c', 'r')\n",  \* 56-58
  "x = f'{a}' 'b' \"c\"\n", "import a.b as c, d\n",                                                                       \* 59-60
  \* 61-63: a block whose last line continues with a backslash INSIDE brackets; 64-66: debug fields, a macro before one, a plain continuation
  "if c:\n    x = (1 + \\\n         2)\n", "for i in y:\n    $[echo a \\\n      b]\n", "def f():\n    return [1, \\\n  2]\n",
  "y = f'{x = }' f'''{z\n =}'''\n", "with! ctx2:\n    q\nv = f'{u = }'\n", "x = 1 if a else \\\n    2\n",
  \* 67: comments and a blank line (after a with-block: left of it); 68-71: raw and non-raw f-strings with the same quotes, \N escapes
  "# one\n\n# two\n", "pat = rf\"\\d{n}\"\n", "item = f\"\\N{BULLET} {t}\"\n", "r2 = Rf'\\N{x}'\n", "n2 = f'\\N{DIGIT ONE}{u}'\n"
>>
VARIABLE seq
Init == seq = <<>>
Next == Len(seq) < MaxLen /\ \E k \in Use : seq' = Append(seq, k)
Export == seq # <<>> => CSVWrite("%1$s", <<ToJson([kinds |-> seq, parts |-> [i \in 1..Len(seq) |-> Kinds[seq[i]]]])>>, IOEnv.OUT)
=============================================================================
