------------------------------ MODULE Indent ------------------------------
(***************************************************************************)
(* Line-structure model of the scanner (peg_parser/tokenize.py:            *)
(* next_statement and the end-of-input code of _scan_lines): a source is   *)
(* a sequence of physical lines, each a leading-whitespace string drawn    *)
(* from the table Ws (spaces, tabs, form feeds) followed by one of the     *)
(* line shapes of Shape, and the specification PREDICTS what the scanner   *)
(* does with it:                                                           *)
(*   - the column of the first character measured with tab size 8 and the  *)
(*     alternative column measured with tab size 1 (a form feed resets     *)
(*     both);                                                              *)
(*   - the two parallel stacks (indents, alts), INDENT on a deeper line,   *)
(*     one DEDENT per popped level, IndentationError when the column is    *)
(*     not on the stack, TabError when the two measures disagree about     *)
(*     "equal / deeper";                                                   *)
(*   - no indentation processing for blank and comment-only lines, inside  *)
(*     brackets and on a line continued by a backslash; a line holding     *)
(*     nothing but a backslash is skipped, and the statement it leads to   *)
(*     takes the first non-zero column among such lines, else its own;     *)
(*   - NEWLINE at the end of a logical line, NL otherwise; at the end of   *)
(*     input the implicit NEWLINE, one DEDENT per open level, ENDMARKER;   *)
(*     TokenError when the input ends inside a bracket or a continuation.  *)
(* Every token is predicted with its exact coordinates.                    *)
(*                                                                         *)
(* Laws checked by TLC on the model itself (every reachable state):        *)
(*   StacksIncrease   both stacks start at 0 and are strictly increasing   *)
(*   Balanced         #INDENT - #DEDENT = height of the stack - 1          *)
(*   EndBalanced      with the end tokens, #INDENT = #DEDENT               *)
(*   OneNewlinePerLogicalLine                                              *)
(*   SpacesNeverTabError  a TabError needs a tab                           *)
(*   DedentOnlyToOpenLevel  an accepted dedent lands on a level that is    *)
(*                    still open                                           *)
(* harness/indent.py renders the texts, runs the real scanner on each and  *)
(* compares the stream with the prediction; the texts also feed the C02,   *)
(* C08, C09 and C11 checks where CPython is the oracle.                    *)
(***************************************************************************)
EXTENDS Integers, Sequences, FiniteSets, TLC, Json, CSV, IOUtils
CONSTANTS MaxLines, UseWs, UseShape,
          Plausible   \* TRUE: only layouts whose block structure a parser could accept (a deeper line exactly after a header)

\* leading whitespace: sequences of units "s" (space), "t" (tab), "f" (form feed)
Ws == << <<>>, <<"s">>, <<"s", "s">>, <<"s", "s", "s", "s">>, <<"t">>, <<"s", "t">>, <<"t", "s">>,                 \* 1-7
         <<"s", "s", "s", "s", "s", "s", "s", "s">>, <<"f">>, <<"s", "f", "s">>, <<"t", "t">>, <<"s", "s", "s">>,   \* 8-12
         <<"f", "s", "s">>, <<"s", "s", "s", "s", "s", "s", "s", "s", "s">>, <<"t", "s", "s">> >>                   \* 13-15

\* line shapes: tokens <<type, text>> written with single spaces between them is NOT assumed: gap |-> columns between tokens
\* cls: "code" ends a logical line, "open" leaves a bracket open, "close" closes one, "cmt" comment only, "blank", "cont"
Shape == <<
  [cls |-> "code",  toks |-> << <<"NAME", "a", 0>> >>,                                         text |-> "a"],      \* 1
  [cls |-> "code",  toks |-> << <<"NAME", "if", 0>>, <<"NAME", "a", 3>>, <<"OP", ":", 4>> >>,   text |-> "if a:"],  \* 2
  [cls |-> "open",  toks |-> << <<"OP", "(", 0>>, <<"NAME", "a", 2>> >>,                        text |-> "( a"],    \* 3
  [cls |-> "close", toks |-> << <<"NAME", "b", 0>>, <<"OP", ")", 2>> >>,                        text |-> "b )"],    \* 4
  [cls |-> "cmt",   toks |-> << <<"COMMENT", "# c", 0>> >>,                                     text |-> "# c"],    \* 5
  [cls |-> "blank", toks |-> << >>,                                                             text |-> ""],       \* 6
  [cls |-> "cont",  toks |-> << <<"NAME", "a", 0>>, <<"OP", "+", 2>> >>,                        text |-> "a + \\"], \* 7
  [cls |-> "code",  toks |-> << <<"NAME", "pass", 0>> >>,                                       text |-> "pass"],   \* 8
  [cls |-> "bcont", toks |-> << >>,                                                             text |-> "\\"]      \* 9 nothing but a continuation
>>
\* Len of a TLA+ string is available in TLC
TextLen(sh) == Len(Shape[sh].text)

VARIABLES lines,    \* chosen so far: <<ws index, shape index>>
          eol,      \* the last line ends with a newline
          indents, alts, depth, cont,
          open,     \* significant tokens since the last NEWLINE
          toks,     \* predicted tokens <<type, text-or-ws-index, sl, sc, el, ec>>
          err,      \* <<>> or <<class, line, column>>
          pend,     \* -1, or the first non-zero column among the continuation-only lines that precede the statement
          hdr       \* the last statement was a block header ("if a:")
vars == <<lines, eol, indents, alts, depth, cont, open, toks, err, pend, hdr>>

Init == lines = <<>> /\ eol = TRUE /\ indents = <<0>> /\ alts = <<0>> /\ depth = 0 /\ cont = FALSE /\ open = FALSE
        /\ toks = <<>> /\ err = <<>> /\ pend = -1 /\ hdr = FALSE

\* ---- measuring --------------------------------------------------------------
RECURSIVE Measure(_, _, _)
\* returns <<column (tab size 8), alternative column (tab size 1)>>
Measure(ws, col, alt) ==
  IF ws = <<>> THEN <<col, alt>>
  ELSE LET u == Head(ws) IN
       IF u = "s" THEN Measure(Tail(ws), col + 1, alt + 1)
       ELSE IF u = "t" THEN Measure(Tail(ws), ((col \div 8) + 1) * 8, alt + 1)
       ELSE Measure(Tail(ws), 0, 0)

Top(s) == s[Len(s)]
Pop(s) == SubSeq(s, 1, Len(s) - 1)
InStack(c, s) == \E i \in 1..Len(s) : s[i] = c

\* the indentation step of one line: [ind, alt, toks, err]
RECURSIVE Dedent(_, _, _, _, _, _, _)
Dedent(col, altc, ind, al, out, ln, pos) ==
  IF col >= Top(ind) THEN [ind |-> ind, alt |-> al, toks |-> out, err |-> <<>>]
  ELSE IF ~InStack(col, ind) THEN [ind |-> ind, alt |-> al, toks |-> out, err |-> <<"IndentationError", ln, pos + 1>>]
  ELSE LET i2 == Pop(ind)  a2 == Pop(al) IN
       IF col = Top(i2) /\ altc # Top(a2) THEN [ind |-> i2, alt |-> a2, toks |-> out, err |-> <<"TabError", ln, pos + 1>>]
       ELSE Dedent(col, altc, i2, a2, Append(out, <<"DEDENT", 0, ln, pos, ln, pos>>), ln, pos)

IndentStep(w, ln) ==
  LET m == Measure(Ws[w], 0, 0)  pos == Len(Ws[w])
      \* a statement that follows continuation-only lines takes the first non-zero column among them, in both measures
      col == IF pend > 0 THEN pend ELSE m[1]
      altc == IF pend > 0 THEN pend ELSE m[2] IN
  IF col = Top(indents)
  THEN IF altc # Top(alts) THEN [ind |-> indents, alt |-> alts, toks |-> <<>>, err |-> <<"TabError", ln, pos + 1>>]
       ELSE [ind |-> indents, alt |-> alts, toks |-> <<>>, err |-> <<>>]
  ELSE IF col > Top(indents)
  THEN IF altc <= Top(alts) THEN [ind |-> indents, alt |-> alts, toks |-> <<>>, err |-> <<"TabError", ln, pos + 1>>]
       ELSE [ind |-> Append(indents, col), alt |-> Append(alts, altc), toks |-> << <<"INDENT", w, ln, 0, ln, pos>> >>, err |-> <<>>]
  ELSE Dedent(col, altc, indents, alts, <<>>, ln, pos)

\* ---- one physical line -------------------------------------------------------
LineToks(sh, ln, pos) ==
  LET ts == Shape[sh].toks IN
  [i \in 1..Len(ts) |-> <<ts[i][1], ts[i][2], ln, pos + ts[i][3], ln, pos + ts[i][3] + Len(ts[i][2])>>]

AddLine(w, sh, nl) ==
  LET ln == Len(lines) + 1
      S == Shape[sh]
      pos == Len(Ws[w])
      endcol == pos + TextLen(sh)
      structural == depth = 0 /\ ~cont                       \* this line starts a logical line
      skip == S.cls \in {"cmt", "blank", "bcont"}            \* blank / comment-only / continuation-only lines never touch the stack
      step == IF structural /\ ~skip THEN IndentStep(w, ln) ELSE [ind |-> indents, alt |-> alts, toks |-> <<>>, err |-> <<>>]
      depth2 == IF S.cls = "open" THEN depth + 1 ELSE IF S.cls = "close" THEN depth - 1 ELSE depth
      ends == S.cls \in {"code", "close"} /\ depth2 = 0      \* the logical line ends here
      \* a backslash that is the very last character of the input continues nothing: the scanner hands it on as an ERRORTOKEN
      \* (CPython's tokenizer raises instead; the parser rejects the token)
      stray == IF S.cls = "cont" /\ ~nl THEN << <<"ERRORTOKEN", "\\", ln, endcol - 1, ln, endcol>> >> ELSE <<>>
      nltok == IF ~nl THEN (IF S.cls = "cmt" THEN << <<"NL", 0, ln, endcol, ln, endcol>> >> ELSE <<>>)   \* a comment is always followed by an NL
               ELSE IF S.cls \in {"cont", "bcont"} THEN <<>>
               ELSE IF ends \/ (S.cls \in {"cmt", "blank"} /\ cont /\ open /\ depth = 0)
                    THEN << <<"NEWLINE", 0, ln, endcol, ln, endcol + 1>> >>
               ELSE << <<"NL", 0, ln, endcol, ln, endcol + 1>> >>
  IN
  /\ err = <<>> /\ eol /\ Len(lines) < MaxLines
  /\ w \in UseWs /\ sh \in UseShape
  /\ (S.cls = "close") => depth > 0
  /\ (S.cls = "cont") => depth = 0
  /\ hdr' = IF structural /\ ~skip THEN (sh = 2) ELSE hdr
  /\ (Plausible /\ structural /\ ~skip) =>
        LET c == IF pend > 0 THEN pend ELSE Measure(Ws[w], 0, 0)[1] IN (IF hdr THEN c > Top(indents) ELSE c <= Top(indents))
  /\ (S.cls = "bcont") => (structural /\ nl)                 \* elsewhere, and at the very end, a lone backslash is just a continuation
  /\ pend' = IF ~structural THEN pend
             ELSE IF S.cls = "bcont" THEN (IF pend > 0 THEN pend ELSE Measure(Ws[w], 0, 0)[1])
             ELSE -1                                       \* any other line at statement level ends the run
  /\ cont => S.cls \in {"code", "open", "cont"}              \* what follows a backslash is more of the same logical line
  /\ (S.cls = "blank" /\ ~nl) => w # 1                        \* an empty last "line" is no line at all
  /\ lines' = Append(lines, <<w, sh>>)
  /\ eol' = nl
  /\ IF step.err # <<>>
     THEN /\ err' = step.err /\ toks' = toks \o step.toks /\ indents' = step.ind /\ alts' = step.alt
          /\ UNCHANGED <<depth, cont, open>>
     ELSE /\ err' = <<>>
          /\ indents' = step.ind /\ alts' = step.alt
          /\ toks' = toks \o step.toks \o LineToks(sh, ln, pos) \o stray \o nltok
          /\ depth' = depth2
          /\ cont' = (S.cls = "cont" /\ nl)
          /\ open' = IF nltok # <<>> /\ nltok[1][1] = "NEWLINE" THEN FALSE ELSE (open \/ (S.toks # <<>> /\ S.cls # "cmt"))

Next == \E w \in 1..Len(Ws), sh \in 1..Len(Shape), nl \in BOOLEAN : AddLine(w, sh, nl)

\* ---- end of input ------------------------------------------------------------
Outcome == IF err # <<>> THEN err[1] ELSE IF depth > 0 \/ cont \/ pend >= 0 THEN "TokenError" ELSE "ok"
LastLen == IF lines = <<>> THEN 0 ELSE Len(Ws[lines[Len(lines)][1]]) + TextLen(lines[Len(lines)][2])
EndTokens ==
  LET n == Len(lines)
      \* the end tokens sit on the line after the last one; a last line of whitespace only (no newline) is not a line
      endline == IF ~eol /\ Shape[lines[n][2]].cls = "blank" THEN n ELSE n + 1
      implicit == IF ~eol /\ open THEN << <<"NEWLINE", 0, n, LastLen, n, LastLen + 1>> >> ELSE <<>>
  IN implicit \o [i \in 1..(Len(indents) - 1) |-> <<"DEDENT", 0, endline, 0, endline, 0>>]
              \o << <<"ENDMARKER", 0, endline, 0, endline, 0>> >>

\* ---- laws ---------------------------------------------------------------------
Count(ty, s) == Cardinality({i \in 1..Len(s) : s[i][1] = ty})
StacksIncrease == /\ indents[1] = 0 /\ alts[1] = 0 /\ Len(indents) = Len(alts)
                  /\ \A i \in 1..(Len(indents) - 1) : indents[i] < indents[i + 1] /\ alts[i] < alts[i + 1]
Balanced == Count("INDENT", toks) - Count("DEDENT", toks) = Len(indents) - 1 \/ err # <<>>
EndBalanced == (Outcome = "ok") => Count("INDENT", toks \o EndTokens) = Count("DEDENT", toks \o EndTokens)
\* logical lines that hold a significant token = NEWLINE tokens (with the implicit one)
OneNewlinePerLogicalLine ==
  (Outcome = "ok") => LET all == toks \o EndTokens IN
     \A i \in 1..Len(all) : all[i][1] = "NEWLINE" =>
         /\ i > 1 /\ all[i - 1][1] \notin {"NEWLINE", "NL", "INDENT", "DEDENT"}
SpacesNeverTabError == (err # <<>> /\ err[1] = "TabError") => \E i \in 1..Len(lines) : \E k \in 1..Len(Ws[lines[i][1]]) : Ws[lines[i][1]][k] = "t"
DedentOnlyToOpenLevel == \A i \in 1..Len(toks) : toks[i][1] = "DEDENT" => \E j \in 1..(i - 1) : toks[j][1] = "INDENT"

ExportTable == (lines = <<>>) => CSVWrite("%1$s", <<ToJson([ws |-> Ws, shapes |-> [i \in 1..Len(Shape) |-> [text |-> Shape[i].text, cls |-> Shape[i].cls]]])>>, IOEnv.OUT)
Export == lines # <<>> => CSVWrite("%1$s", <<ToJson([lines |-> lines, eol |-> eol, outcome |-> Outcome,
                                                       err |-> err, toks |-> IF Outcome = "ok" THEN toks \o EndTokens ELSE toks])>>, IOEnv.OUT)
=============================================================================
