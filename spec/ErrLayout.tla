------------------------------ MODULE ErrLayout ------------------------------
(***************************************************************************)
(* C11 generator: every rejected snippet is placed at every position of    *)
(* the list below -- on the first line, after blank / comment lines, after *)
(* valid statements, inside an indented block, followed by more code,      *)
(* inside a multi-line bracket, with CRLF line ends, without final newline *)
(* -- and parsed through both entry points.  A layout is                   *)
(* [id, pre, post, indent, nofinal, crlf].                                 *)
(***************************************************************************)
EXTENDS Naturals, Sequences, TLC, Json, CSV, IOUtils
CONSTANTS NSnippets, LayoutUse
L(id, pre, post, indent, nofinal, crlf) == [id |-> id, pre |-> pre, post |-> post, indent |-> indent, nofinal |-> nofinal, crlf |-> crlf]
Layouts == <<
  L("first", "", "", "", FALSE, FALSE),
  L("nofinalnl", "", "", "", TRUE, FALSE),
  L("afterblank", "\n\n", "", "", FALSE, FALSE),
  L("aftercomment", "# c1\n\n  # c2\n", "", "", FALSE, FALSE),
  L("afterstmts", "x = 1\ndef f():\n    return 2\n\n", "", "", FALSE, FALSE),
  L("beforemore", "", "y = 2\n\nz = 3\n", "", FALSE, FALSE),
  L("inblock", "if a:\n    b = 1\n", "", "    ", FALSE, FALSE),
  L("inblocktab", "while a:\n", "", "\t", FALSE, FALSE),
  L("aftermultiline", "s = '''l1\nl2\n'''\nt = [1,\n     2]\n", "", "", FALSE, FALSE),
  L("crlf", "x = 1\n", "y = 2\n", "", FALSE, TRUE),
  L("aftercont", "x = 1 + \\\n    2\n", "", "", FALSE, FALSE),
  L("lastnofinal", "x = 1\n\n", "", "", TRUE, FALSE),
  L("nested", "class C:\n    def m(self):\n", "", "        ", FALSE, FALSE),
  L("afterxonsh", "$(ls -l)\nwith! c:\n    raw text\n", "", "", FALSE, FALSE)
>>
VARIABLE pick
Init == pick = <<0, 0>>
Next == pick = <<0, 0>> /\ \E i \in 1..NSnippets : \E l \in LayoutUse : pick' = <<i, l>>
Export == pick # <<0, 0>> => CSVWrite("%1$s", <<ToJson([snippet |-> pick[1], layout |-> Layouts[pick[2]]])>>, IOEnv.OUT)
=============================================================================
