------------------------------ MODULE TokStream ------------------------------
(***************************************************************************)
(* C08 -- "the tokenizer is lossless" -- as a trace specification.         *)
(*                                                                         *)
(* One behaviour per recorded execution of the real generate_tokens(text): *)
(* one step per token.  The module says nothing about WHICH boundaries a   *)
(* tokenizer chooses, only what every acceptable token stream of a source  *)
(* must satisfy:                                                           *)
(*   text     each token's text is the source slice start..end             *)
(*   span     start <= end; zero width only for structural tokens          *)
(*   order    tokens do not overlap and never go backwards                 *)
(*   gap      characters no token covers are line-leading indentation or   *)
(*            a backslash-newline continuation                             *)
(*   closed   a logical line with a significant token is closed by NEWLINE *)
(*            before any INDENT / DEDENT / ENDMARKER                       *)
(*   balance  DEDENTs never exceed INDENTs and balance at ENDMARKER        *)
(*   end      exactly one ENDMARKER, and it is the last token              *)
(* Source lines are sequences of code points, split after "\n" exactly as  *)
(* io.StringIO.readline does (the coordinate system of the tokens).        *)
(* A trace is  [id, lines, toks: Seq([ty, sl, sc, el, ec, txt])].          *)
(* Verdicts are total: the first failing clause of the first failing step  *)
(* is written to IOEnv.VERDICT_FILE as  <id> <clause> <k>.                 *)
(***************************************************************************)
EXTENDS Naturals, Sequences, TLC, Json, CSV, IOUtils

Traces == ndJsonDeserialize(IOEnv.TRACE_FILE)

VARIABLES tid,    \* which recorded execution this behaviour replays
          k,      \* next token to consume
          cur,    \* <<line, col>> just after the last token of non-zero width
          depth,  \* INDENTs minus DEDENTs so far
          sig,    \* a significant token was seen since the last NEWLINE
          ended,  \* ENDMARKER consumed
          verdict \* "run" while replaying, then "ok" or the failing clause

vars == <<tid, k, cur, depth, sig, ended, verdict>>

T == Traces[tid]
NLines == Len(T.lines)
L(l) == IF l >= 1 /\ l <= NLines THEN T.lines[l] ELSE <<>>

SP == 32  TAB == 9  FF == 12  LF == 10  CR == 13  BSL == 92
IndentCh == {SP, TAB, FF}
Structural == {"NEWLINE", "INDENT", "DEDENT", "ENDMARKER"}
ZeroWidthOK == Structural \cup {"NL"}   \* CPython too ends a final comment line with an empty NL
Insignificant == Structural \cup {"NL", "COMMENT", "WS", "ERRORTOKEN"}  \* an ERRORTOKEN alone does not make a logical line

Le(p, q) == p[1] < q[1] \/ (p[1] = q[1] /\ p[2] <= q[2])
Min(a, b) == IF a < b THEN a ELSE b
Clamp(p) == <<p[1], Min(p[2], Len(L(p[1])))>>     \* the implicit NEWLINE ends one past the line

RECURSIVE Slice(_, _, _, _)
Slice(l, c, el, ec) ==      \* source text from (l,c) up to (el,ec), columns clamped at line ends
  IF l > el \/ l > NLines THEN <<>>
  ELSE IF l = el THEN SubSeq(L(l), c + 1, Min(ec, Len(L(l))))
  ELSE SubSeq(L(l), c + 1, Len(L(l))) \o Slice(l + 1, 0, el, ec)

LeadingWs(l, c) == \A i \in 1..c : L(l)[i] \in IndentCh
RestIsNewline(l, c) == SubSeq(L(l), c + 1, Len(L(l))) \in {<<LF>>, <<CR, LF>>}

RECURSIVE GapOK(_, _, _, _)
GapOK(l, c, tl, tc) ==      \* every character in [(l,c), (tl,tc)) may legally be outside all tokens
  IF l > tl \/ (l = tl /\ c >= tc) \/ l > NLines THEN TRUE
  ELSE IF c >= Len(L(l)) THEN GapOK(l + 1, 0, tl, tc)
  ELSE LET ch == L(l)[c + 1] IN
       \/ ch \in IndentCh /\ LeadingWs(l, c) /\ GapOK(l, c + 1, tl, tc)
       \/ ch = BSL /\ RestIsNewline(l, c + 1) /\ GapOK(l + 1, 0, tl, tc)

EndOfSource == <<NLines + 1, 0>>

(* The law for one token, as a first-failing-clause function *)
Clause(t) ==
  LET s == <<t.sl, t.sc>>
      e == <<t.el, t.ec>>
      ce == Clamp(e)
      zero == (s = ce) \/ Len(t.txt) = 0
  IN  IF ended THEN "end_token_after_endmarker"
      ELSE IF ~Le(s, e) THEN "span_start_after_end"
      ELSE IF t.sl < 1 \/ t.sc < 0 THEN "span_outside_source"
      ELSE IF zero /\ t.ty \notin ZeroWidthOK THEN "span_zero_width_nonstructural"
      ELSE IF t.txt # Slice(t.sl, t.sc, t.el, t.ec) THEN "text_not_source_slice"
      ELSE IF ~Le(cur, s) THEN "order_overlap_or_backwards"
      ELSE IF ~GapOK(cur[1], cur[2], s[1], s[2]) THEN "gap_uncovered_characters"
      ELSE IF t.ty \in {"INDENT", "DEDENT", "ENDMARKER"} /\ sig THEN "closed_line_without_newline"
      ELSE IF t.ty = "DEDENT" /\ depth = 0 THEN "balance_dedent_below_zero"
      ELSE IF t.ty = "ENDMARKER" /\ depth # 0 THEN "balance_unclosed_indent"
      ELSE IF t.ty = "ENDMARKER" /\ ~GapOK(cur[1], cur[2], EndOfSource[1], 0) THEN "gap_uncovered_tail"
      ELSE "ok"

TInit == /\ tid \in 1..Len(Traces)
         /\ k = 1 /\ cur = <<1, 0>> /\ depth = 0 /\ sig = FALSE /\ ended = FALSE
         /\ verdict = "run"

Consume ==
  /\ verdict = "run" /\ k <= Len(T.toks)
  /\ LET t == T.toks[k]
         c == Clause(t)
         e == Clamp(<<t.el, t.ec>>)
     IN /\ verdict' = IF c = "ok" THEN "run" ELSE c
        /\ cur' = IF Len(t.txt) > 0 THEN e ELSE cur
        /\ depth' = CASE t.ty = "INDENT" -> depth + 1
                      [] t.ty = "DEDENT" /\ depth > 0 -> depth - 1
                      [] OTHER -> depth
        /\ sig' = IF t.ty = "NEWLINE" THEN FALSE ELSE sig \/ t.ty \notin Insignificant
        /\ ended' = (t.ty = "ENDMARKER")
        /\ k' = IF c = "ok" THEN k + 1 ELSE k
        /\ tid' = tid

Finish ==
  /\ verdict = "run" /\ k > Len(T.toks)
  /\ verdict' = IF ended THEN "ok" ELSE "end_no_endmarker"
  /\ UNCHANGED <<tid, k, cur, depth, sig, ended>>

TNext == Consume \/ Finish

TVerdict == (verdict # "run") => CSVWrite("%1$s %2$s %3$s", <<T.id, verdict, k>>, IOEnv.VERDICT_FILE)

Spec == TInit /\ [][TNext]_vars
=============================================================================
