------------------------------ MODULE AstShape ------------------------------
(***************************************************************************)
(* C04 -- every returned tree is a well-formed CPython AST -- as a trace   *)
(* specification over the flattened tree (pre-order rows).                 *)
(*                                                                         *)
(* A trace is [id, ll, rows]; ll = length of every source line (bytes);    *)
(* a row is [ty, pty, fld, ctx, pctx, l, c, el, ec, f] with pty/fld = the   *)
(* parent's node type and the field this node sits in, ctx = its own       *)
(* expression context ("" if it has none), pctx = the parent's, and        *)
(* f = <<field name, actual kind, element kinds>> for every declared field *)
(* (kind in node / list / none / scalar / missing / bad).                  *)
(*                                                                         *)
(* Laws (clause names):                                                    *)
(*   field_shape   every field has the kind the ASDL (gen/Asdl.tla)        *)
(*                 declares: lists are lists of nodes, required fields     *)
(*                 are present, optional ones are a node or None           *)
(*   child_category a node sits only in a field of its own ASDL sum type   *)
(*   context       Store exactly at binding positions (and through         *)
(*                 Tuple/List/Starred below them), Del under Delete.targets,*)
(*                 Load elsewhere                                          *)
(*   span_*        located nodes carry four ints, start <= end, inside the *)
(*                 source text                                             *)
(*   compile_*     the built-in compile() never reports a malformed tree,  *)
(*                 and rejects for semantic reasons only if it rejects the *)
(*                 written-out Python as well (recorded in T.comp)         *)
(***************************************************************************)
EXTENDS Naturals, Sequences, TLC, Json, CSV, IOUtils
A == INSTANCE Asdl
Traces == ndJsonDeserialize(IOEnv.TRACE_FILE)
VARIABLES tid, k, verdict
T == Traces[tid]

Located == {"stmt", "expr", "excepthandler", "arg", "keyword", "alias", "pattern", "type_param"}
HasCtx == {"Name", "Attribute", "Subscript", "Starred", "List", "Tuple"}
StoreFields == { <<"Assign", "targets">>, <<"AugAssign", "target">>, <<"AnnAssign", "target">>, <<"For", "target">>,
                 <<"AsyncFor", "target">>, <<"withitem", "optional_vars">>, <<"comprehension", "target">>,
                 <<"NamedExpr", "target">>, <<"TypeAlias", "name">> }
NoneElements == { <<"Dict", "keys">>, <<"arguments", "kw_defaults">> }

ExpectedCtx(r) ==
  IF <<r.pty, r.fld>> \in StoreFields THEN "Store"
  ELSE IF <<r.pty, r.fld>> = <<"Delete", "targets">> THEN "Del"
  ELSE IF (r.pty \in {"Tuple", "List"} /\ r.fld = "elts") \/ (r.pty = "Starred" /\ r.fld = "value")
       THEN (IF r.pctx \in {"Store", "Del"} THEN r.pctx ELSE "Load")
  ELSE "Load"

ElemsOK(ty, fname, t, elems) ==    \* elems: subset of {"n", "N", "s"} as a sequence
  \A i \in 1..Len(elems) :
     \/ elems[i] = "n" /\ t \notin A!Scalars
     \/ elems[i] = "s" /\ t \in A!Scalars
     \/ elems[i] = "N" /\ <<ty, fname>> \in NoneElements

FieldOK(ty, fr) ==    \* fr = <<field name, kind, element kinds>>
  LET decl == A!FieldKind[ty][fr[1]]   q == decl[1]   t == decl[2] IN
  CASE q = "list" -> fr[2] = "list" /\ ElemsOK(ty, fr[1], t, fr[3])
    [] q = "req"  -> IF t \in A!Scalars THEN fr[2] = "scalar" \/ (t = "constant" /\ fr[2] = "none") ELSE fr[2] = "node"
    [] q = "opt"  -> fr[2] \in {"none", "missing"} \/ (IF t \in A!Scalars THEN fr[2] = "scalar" ELSE fr[2] = "node")

LineLen(l) == IF l >= 1 /\ l <= Len(T.ll) THEN T.ll[l] ELSE 0

Clause(r) ==
  IF r.ty \notin DOMAIN A!Category THEN "unknown_node_type"
  ELSE IF \E i \in 1..Len(r.f) : ~FieldOK(r.ty, r.f[i]) THEN "field_shape"
  ELSE IF r.pty # "" /\ A!FieldKind[r.pty][r.fld][2] \notin A!Scalars
          /\ A!Category[r.ty] # A!FieldKind[r.pty][r.fld][2] THEN "child_category"
  ELSE IF r.ty \in HasCtx /\ r.ctx # ExpectedCtx(r) THEN "context"
  ELSE IF A!Category[r.ty] \in Located /\ (r.l < 0 \/ r.c < 0 \/ r.el < 0 \/ r.ec < 0) THEN "span_missing"
  ELSE IF A!Category[r.ty] \in Located /\ ~(r.l < r.el \/ (r.l = r.el /\ r.c <= r.ec)) THEN "span_start_after_end"
  ELSE IF A!Category[r.ty] \in Located /\ ~(r.l >= 1 /\ r.el <= Len(T.ll) /\ r.c <= LineLen(r.l) /\ r.ec <= LineLen(r.el))
       THEN "span_outside_source"
  ELSE "ok"

TInit == tid \in 1..Len(Traces) /\ k = 1 /\ verdict = "run"
Step == /\ verdict = "run" /\ k <= Len(T.rows)
        /\ LET c == Clause(T.rows[k]) IN
             /\ verdict' = IF c = "ok" THEN "run" ELSE c
             /\ k' = IF c = "ok" THEN k + 1 ELSE k
        /\ tid' = tid
CompileClause ==     \* T.comp: outcome of the built-in compile() on the returned tree
  CASE T.comp \in {"ok", "semantic_both"} -> "ok"     \* semantic_both: the written-out Python is rejected too
    [] T.comp = "semantic_only_here" -> "compile_rejects_but_written_out_python_compiles"
    [] T.comp = "unparse_failed" -> "compile_rejects_and_tree_cannot_be_written_out"
    [] OTHER -> "compile_reports_malformed_tree"
Finish == verdict = "run" /\ k > Len(T.rows) /\ verdict' = CompileClause /\ UNCHANGED <<tid, k>>
TNext == Step \/ Finish
TVerdict == (verdict # "run") => CSVWrite("%1$s %2$s %3$s", <<T.id, verdict, k>>, IOEnv.VERDICT_FILE)
=============================================================================
