------------------------------ MODULE ErrShape ------------------------------
(***************************************************************************)
(* C11 -- syntax errors are well-formed and point into the offending       *)
(* source -- as a trace specification over recorded exceptions.            *)
(* A trace is [id, cls, nargs, msg, fname, ln, off, eln, eoff, text, ll,   *)
(* line]: the public attributes of the raised SyntaxError /                *)
(* IndentationError (-1 for a missing / non-integer attribute; msg, fname  *)
(* and text as "" when missing, fname "?" when it is not a string),        *)
(* ll = the length of every source line (characters, without terminator),  *)
(* line = the source line at ln ("" if ln is out of range), textok = text   *)
(* begins with that line (compared by the harness up to the line           *)
(* terminator, because TLC strings cannot be sliced).                      *)
(* The law: a message; a file name; 1 <= lineno <= lines + 1; 1 <= offset  *)
(* <= len(line) + 1; an end position, not before the start; text begins    *)
(* with the source line at lineno.                                         *)
(***************************************************************************)
EXTENDS Naturals, Sequences, TLC, Json, CSV, IOUtils
Traces == ndJsonDeserialize(IOEnv.TRACE_FILE)
VARIABLES tid, verdict
T == Traces[tid]
NL == Len(T.ll)
LineLen(l) == IF l >= 1 /\ l <= NL THEN T.ll[l] ELSE 0
Clause ==
  IF T.msg = "" THEN "message_missing"
  ELSE IF T.fname = "" \/ T.fname = "?" THEN "filename_missing"
  ELSE IF T.ln < 1 THEN "lineno_missing"
  ELSE IF T.ln > NL + 1 THEN "lineno_past_end_of_source"
  ELSE IF T.off < 1 THEN "offset_missing_or_not_1_based"
  ELSE IF T.off > LineLen(T.ln) + 1 THEN "offset_past_end_of_line"
  ELSE IF T.eln < 1 \/ T.eoff < 1 THEN "end_position_missing"
  ELSE IF T.eln < T.ln \/ (T.eln = T.ln /\ T.eoff < T.off) THEN "end_before_start"
  ELSE IF ~T.textok THEN "text_is_not_the_source_line"
  ELSE "ok"
TInit == tid \in 1..Len(Traces) /\ verdict = "run"
Step == verdict = "run" /\ verdict' = Clause /\ tid' = tid
TNext == Step
TVerdict == (verdict # "run") => CSVWrite("%1$s %2$s %3$s", <<T.id, verdict, 1>>, IOEnv.VERDICT_FILE)
=============================================================================
