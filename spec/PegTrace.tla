------------------------------ MODULE PegTrace ------------------------------
(***************************************************************************)
(* C17 trace validation: for one grammar, the outcome of the generated     *)
(* parser on every token string next to what Peg!Sem prescribes.           *)
(* A trace is [id, pts]; a point is [st, end, val, wst, wend, wval].       *)
(***************************************************************************)
EXTENDS Naturals, Sequences, TLC, Json, CSV, IOUtils
Traces == ndJsonDeserialize(IOEnv.TRACE_FILE)
VARIABLES tid, k, verdict
T == Traces[tid]
Clause(p) == IF p.st # p.wst THEN "accept_fail_raise_differs_from_semantics"
             ELSE IF p.st = "ok" /\ p.end # p.wend THEN "consumed_tokens_differ_from_semantics"
             ELSE IF p.st = "ok" /\ p.val # p.wval THEN "action_value_differs_from_semantics"
             ELSE "ok"
TInit == tid \in 1..Len(Traces) /\ k = 1 /\ verdict = "run"
Step == /\ verdict = "run" /\ k <= Len(T.pts)
        /\ LET c == Clause(T.pts[k]) IN
             /\ verdict' = IF c = "ok" THEN "run" ELSE c
             /\ k' = IF c = "ok" THEN k + 1 ELSE k
        /\ tid' = tid
Finish == verdict = "run" /\ k > Len(T.pts) /\ verdict' = "ok" /\ UNCHANGED <<tid, k>>
TNext == Step \/ Finish
TVerdict == (verdict # "run") => CSVWrite("%1$s %2$s %3$s", <<T.id, verdict, k>>, IOEnv.VERDICT_FILE)
=============================================================================
