------------------------------ MODULE TwoPass ------------------------------
(***************************************************************************)
(* The two-pass strategy of Parser.parse (peg_parser/subheader.py): the    *)
(* grammar is run once with the diagnostic invalid_* alternatives switched *)
(* off; only if that fails is the memo table cleared, the tokenizer reset  *)
(* and the grammar run again with them switched on - and whatever the      *)
(* second run returns, the call ends in a SyntaxError.  An invalid_* rule  *)
(* is guarded at its call site by `self.call_invalid_rules and ...`.       *)
(*                                                                         *)
(* Deviation of the code from that design, found by validating recorded   *)
(* executions against this model and kept here as an action of its own:    *)
(* three rules whose alternatives carry no action are generated through    *)
(* the seq_alts shortcut of tasks/generator.py, which drops the guard -     *)
(* import_stmt, params and lambda_params call invalid_import,               *)
(* invalid_parameters and invalid_lambda_parameters in the FIRST pass too  *)
(* (UnguardedSite).  They can only match text that is rejected anyway, so  *)
(* no listed property is affected; the laws below are stated for the       *)
(* guarded sites.                                                          *)
(*                                                                         *)
(* The parser body is the environment: in each pass it invokes rules of    *)
(* two kinds in any order and number, and the first pass ends with or      *)
(* without a tree.                                                         *)
(*                                                                         *)
(* Laws (TLC, every reachable state):                                      *)
(*   NoDiagnosticsInFirstPass   no invalid_* rule body runs in pass 1      *)
(*   TreeOnlyFromFirstPass      a returned tree was built in pass 1, with  *)
(*                              the memo table of pass 1 (never cleared)   *)
(*   ErrorOnlyAfterSecondPass   an error is raised only after a complete   *)
(*                              second pass over a cleared memo table      *)
(*   AtMostTwoPasses                                                       *)
(* PassTrace.tla validates recorded executions of the real parser against  *)
(* the same laws (harness: invalid_* methods and Parser._parse counted by  *)
(* wrapping them on the class in the worker, no change to the code).       *)
(***************************************************************************)
EXTENDS Naturals
CONSTANT MaxCalls

VARIABLES pass,        \* 0 = not started, 1, 2, 3 = returned / raised
          invalidOn,   \* self.call_invalid_rules
          epoch,       \* how often the memo table was cleared
          outcome,     \* "none" | "tree" | "error"
          inv1, inv2,  \* invalid_* rule bodies executed in pass 1 / pass 2 through guarded call sites
          invU,        \* executed through one of the three unguarded sites (either pass)
          calls        \* rule invocations so far (bound)
vars == <<pass, invalidOn, epoch, outcome, inv1, inv2, invU, calls>>

Init == pass = 0 /\ invalidOn = FALSE /\ epoch = 0 /\ outcome = "none" /\ inv1 = 0 /\ inv2 = 0 /\ invU = 0 /\ calls = 0

Start == pass = 0 /\ pass' = 1 /\ UNCHANGED <<invalidOn, epoch, outcome, inv1, inv2, invU, calls>>
\* an ordinary rule
Rule == pass \in {1, 2} /\ calls < MaxCalls /\ calls' = calls + 1 /\ UNCHANGED <<pass, invalidOn, epoch, outcome, inv1, inv2, invU>>
\* a call site of a diagnostic rule: `self.call_invalid_rules and self.invalid_x()`
InvalidSite == /\ pass \in {1, 2} /\ calls < MaxCalls /\ calls' = calls + 1
               /\ inv1' = IF invalidOn /\ pass = 1 THEN inv1 + 1 ELSE inv1
               /\ inv2' = IF invalidOn /\ pass = 2 THEN inv2 + 1 ELSE inv2
               /\ UNCHANGED <<pass, invalidOn, epoch, outcome, invU>>
\* import_stmt / params / lambda_params: the diagnostic alternative is tried whatever the flag says
UnguardedSite == /\ pass \in {1, 2} /\ calls < MaxCalls /\ calls' = calls + 1 /\ invU' = invU + 1
                 /\ UNCHANGED <<pass, invalidOn, epoch, outcome, inv1, inv2>>
Pass1Tree == pass = 1 /\ outcome' = "tree" /\ pass' = 3 /\ UNCHANGED <<invalidOn, epoch, inv1, inv2, invU, calls>>
Pass1None == pass = 1 /\ invalidOn' = TRUE /\ epoch' = epoch + 1 /\ pass' = 2 /\ UNCHANGED <<outcome, inv1, inv2, invU, calls>>
\* whatever the second run produced, the call raises
Pass2End == pass = 2 /\ outcome' = "error" /\ pass' = 3 /\ UNCHANGED <<invalidOn, epoch, inv1, inv2, invU, calls>>
\* a diagnostic rule may raise its own, more specific SyntaxError from inside the second pass
Pass2Raise == pass = 2 /\ inv2 + invU > 0 /\ outcome' = "error" /\ pass' = 3 /\ UNCHANGED <<invalidOn, epoch, inv1, inv2, invU, calls>>
\* ... and one of the unguarded three may do so already from the first pass
Pass1Raise == pass = 1 /\ invU > 0 /\ outcome' = "error1" /\ pass' = 3 /\ UNCHANGED <<invalidOn, epoch, inv1, inv2, invU, calls>>
Next == Start \/ Rule \/ InvalidSite \/ UnguardedSite \/ Pass1Raise \/ Pass1Tree \/ Pass1None \/ Pass2End \/ Pass2Raise
Spec == Init /\ [][Next]_vars

NoDiagnosticsInFirstPass == inv1 = 0
TreeOnlyFromFirstPass == (outcome = "tree") => (inv2 = 0 /\ epoch = 0 /\ ~invalidOn)
ErrorOnlyAfterSecondPass == (outcome = "error") => (epoch = 1 /\ invalidOn)
AtMostTwoPasses == epoch <= 1 /\ pass \in 0..3
=============================================================================
