------------------------------ MODULE LexGen ------------------------------
(***************************************************************************)
(* Lexeme-level model of the scanner (the "XTok" of the design, at the     *)
(* grain of whole lexemes): a source text is a sequence of lexemes drawn   *)
(* from the table Lex (Python names, numbers, strings, every Python        *)
(* operator; the xonsh operators and digraphs, search paths, p-strings;    *)
(* whitespace, comments, newlines, backslash continuations), and the       *)
(* specification PREDICTS the token stream: one token per lexeme with its  *)
(* exact coordinates, the NEWLINE / NL decision (bracket depth, blank or   *)
(* comment-only line, continued line), the implicit NEWLINE and the        *)
(* ENDMARKER at the end, or TokenError when the input ends inside a        *)
(* bracket or after a continuation.                                        *)
(*                                                                         *)
(* Two lexemes may be written adjacently only if they do not fuse into a   *)
(* different lexeme under maximal munch (NoAdj: pairs of lexeme indices,   *)
(* derived mechanically by the harness from the texts of this table).      *)
(* Whitespace at the start of a logical line would be indentation and is   *)
(* not generated (indentation is covered by CharGen / the program space).  *)
(* The real tokenizer is run on every generated text; a difference from    *)
(* the prediction is reported as model drift, and the texts also feed the  *)
(* C03 / C08 / C09 checks.                                                 *)
(***************************************************************************)
EXTENDS Naturals, Sequences, TLC, Json, CSV, IOUtils
CONSTANTS MaxLex, Use, NoAdj

L(t, ty, cls, len) == [t |-> t, ty |-> ty, cls |-> cls, len |-> len, nl |-> 0, tail |-> 0]
ML(t, ty, cls, len, nl, tail) == [t |-> t, ty |-> ty, cls |-> cls, len |-> len, nl |-> nl, tail |-> tail]
Lex == <<
  L("a", "NAME", "name", 1), L("xy_1", "NAME", "name", 4), L("_", "NAME", "name", 1), L("if", "NAME", "name", 2), L("~u00e9~t~u00e9~", "NAME", "name", 3),        \* 1-5
  L("1", "NUMBER", "num", 1), L("0x1F", "NUMBER", "num", 4), L("2.5", "NUMBER", "num", 3), L("1e3", "NUMBER", "num", 3), L("3j", "NUMBER", "num", 2),            \* 6-10
  L("1_0", "NUMBER", "num", 3), L(".5", "NUMBER", "num", 2), L("5.", "NUMBER", "num", 2), L("0o7", "NUMBER", "num", 3), L("0b1", "NUMBER", "num", 3),           \* 11-15
  L("'s'", "STRING", "str", 3), L("\"t\"", "STRING", "str", 3), L("b'x'", "STRING", "str", 4), L("r'\\d'", "STRING", "str", 5), ML("'''m\nn'''", "STRING", "str", 9, 1, 4), \* 16-20
  L("p'/x'", "STRING", "str", 5), L("u\"q\"", "STRING", "str", 4), L("'it\\'s'", "STRING", "str", 7), L("\"\"", "STRING", "str", 2), ML("'a\\\nb'", "STRING", "str", 6, 1, 2),  \* 21-25
  L("+", "OP", "op", 1), L("-", "OP", "op", 1), L("*", "OP", "op", 1), L("**", "OP", "op", 2), L("/", "OP", "op", 1),                                               \* 26-30
  L("//", "OP", "op", 2), L("%", "OP", "op", 1), L("@", "OP", "op", 1), L("<<", "OP", "op", 2), L(">>", "OP", "op", 2),                                             \* 31-35
  L("&", "OP", "op", 1), L("|", "OP", "op", 1), L("^", "OP", "op", 1), L("~", "OP", "op", 1), L("<", "OP", "op", 1),                                                \* 36-40
  L(">", "OP", "op", 1), L("<=", "OP", "op", 2), L(">=", "OP", "op", 2), L("==", "OP", "op", 2), L("!=", "OP", "op", 2),                                            \* 41-45
  L("(", "OP", "open", 1), L(")", "OP", "close", 1), L("[", "OP", "open", 1), L("]", "OP", "close", 1), L("{", "OP", "open", 1),                                    \* 46-50
  L("}", "OP", "close", 1), L(",", "OP", "op", 1), L(":", "OP", "op", 1), L(".", "OP", "op", 1), L(";", "OP", "op", 1),                                             \* 51-55
  L("=", "OP", "op", 1), L("->", "OP", "op", 2), L("+=", "OP", "op", 2), L("-=", "OP", "op", 2), L("*=", "OP", "op", 2),                                            \* 56-60
  L("/=", "OP", "op", 2), L("//=", "OP", "op", 3), L("%=", "OP", "op", 2), L("@=", "OP", "op", 2), L("&=", "OP", "op", 2),                                          \* 61-65
  L("|=", "OP", "op", 2), L("^=", "OP", "op", 2), L(">>=", "OP", "op", 3), L("<<=", "OP", "op", 3), L("**=", "OP", "op", 3),                                        \* 66-70
  L(":=", "OP", "op", 2), L("...", "OP", "op", 3), L("!", "OP", "op", 1), L("$", "OP", "op", 1), L("?", "OP", "op", 1),                                             \* 71-75
  L("??", "OP", "op", 2), L("||", "OP", "op", 2), L("&&", "OP", "op", 2), L("@(", "OP", "open", 2), L("!(", "OP", "open", 2),                                       \* 76-80
  L("![", "OP", "open", 2), L("$(", "OP", "open", 2), L("$[", "OP", "open", 2), L("${", "OP", "open", 2), L("@$(", "OP", "open", 3),                                \* 81-85
  L(">&", "OP", "op", 2), L("`a*`", "SEARCH_PATH", "sp", 4), L("g`*.py`", "SEARCH_PATH", "sp", 7), L("r`x+`", "SEARCH_PATH", "sp", 5), L("@f`y`", "SEARCH_PATH", "sp", 5), \* 86-90
  L(" ", "WS", "ws", 1), L("  ", "WS", "ws", 2), L("\t", "WS", "ws", 1), L("# c", "COMMENT", "cmt", 3), L("#", "COMMENT", "cmt", 1),                                \* 91-95
  ML("\n", "NL", "nl", 1, 1, 0), ML("\r\n", "NL", "nl", 2, 1, 0), ML("\\\n", "", "cont", 2, 1, 0), ML("\\\r\n", "", "cont", 3, 1, 0)                               \* 96-99
>>
Significant(x) == x.cls \notin {"ws", "cmt", "nl", "cont"}

VARIABLES seq,     \* lexeme indices chosen so far
          toks,    \* predicted tokens <<ty, index of lexeme, sl, sc, el, ec>>
          line, col, depth,
          open,    \* tokens were produced on this logical line since the last NEWLINE
          fresh,   \* at the start of a logical line (nothing but newlines / comments since)
          cont     \* the current physical line continues the previous one (backslash-newline)
vars == <<seq, toks, line, col, depth, open, fresh, cont>>

Init == seq = <<>> /\ toks = <<>> /\ line = 1 /\ col = 0 /\ depth = 0 /\ open = FALSE /\ fresh = TRUE /\ cont = FALSE

EndPos(x) == IF x.nl = 0 THEN <<line, col + x.len>> ELSE <<line + x.nl, x.tail>>

Add(i) ==
  LET x == Lex[i]  e == EndPos(x) IN
  /\ Len(seq) < MaxLex
  /\ (seq # <<>>) => <<seq[Len(seq)], i>> \notin NoAdj
  /\ (x.cls = "ws") => ~(fresh /\ depth = 0 /\ ~cont)                 \* would be indentation
  /\ (x.cls = "close") => depth > 0
  /\ (seq # <<>> /\ Lex[seq[Len(seq)]].cls = "cmt") => x.cls = "nl"    \* a comment runs to the end of its line
  /\ seq' = Append(seq, i)
  /\ LET ty == IF x.cls = "nl"
               THEN (IF depth > 0 THEN "NL" ELSE IF fresh /\ ~cont THEN "NL" ELSE "NEWLINE")
               ELSE x.ty
         \* a newline token spans to the end of the physical line: (line, col) .. (line, col + len)
         tokend == IF x.cls = "nl" THEN <<line, col + x.len>> ELSE e
     IN toks' = IF x.cls = "cont" THEN toks ELSE Append(toks, <<ty, i, line, col, tokend[1], tokend[2]>>)
  /\ line' = e[1] /\ col' = e[2]
  /\ depth' = IF x.cls = "open" THEN depth + 1 ELSE IF x.cls = "close" THEN depth - 1 ELSE depth
  /\ open' = IF x.cls = "nl" /\ depth = 0 /\ ~(fresh /\ ~cont) THEN FALSE ELSE (open \/ Significant(x))
  /\ fresh' = IF x.cls = "nl" /\ depth = 0 THEN TRUE
              ELSE IF x.cls \in {"cmt", "cont"} THEN fresh ELSE IF x.cls = "nl" THEN fresh ELSE FALSE
  \* the whole next physical line is "continued" - unless the backslash stood alone at the start of a logical line: such a
  \* line joins nothing, the next one is still the start of a logical line (blank => NL, white space => indentation)
  /\ cont' = IF x.cls = "cont" THEN ~fresh ELSE IF x.cls = "nl" THEN FALSE ELSE cont
Next == \E i \in Use : Add(i)

\* what the scanner must do at the end of this text
Outcome == IF depth > 0 \/ (seq # <<>> /\ Lex[seq[Len(seq)]].cls = "cont") THEN "TokenError" ELSE "ok"
EndTokens == LET lastline == IF col = 0 /\ seq # <<>> THEN line ELSE line + 1
                 lastcmt == seq # <<>> /\ Lex[seq[Len(seq)]].cls = "cmt" IN
             (IF lastcmt /\ fresh /\ ~cont /\ depth = 0 THEN <<<<"NL", 0, line, col, line, col>>>>     \* comment-only last line: empty NL
              ELSE IF open THEN <<<<"NEWLINE", 0, line, col, line, col + 1>>>> ELSE <<>>)
               \o <<<<"ENDMARKER", 0, lastline, 0, lastline, 0>>>>
RECURSIVE Text(_)
Text(s) == IF s = <<>> THEN "" ELSE Lex[Head(s)].t \o Text(Tail(s))
ExportTable == (seq = <<>>) => CSVWrite("%1$s", <<ToJson([table |-> [i \in 1..Len(Lex) |-> [t |-> Lex[i].t, cls |-> Lex[i].cls, len |-> Lex[i].len]]])>>, IOEnv.OUT)
Export == seq # <<>> => CSVWrite("%1$s", <<ToJson([src |-> Text(seq), lex |-> seq, outcome |-> Outcome,
                                                     toks |-> IF Outcome = "ok" THEN toks \o EndTokens ELSE <<>>])>>, IOEnv.OUT)
=============================================================================
