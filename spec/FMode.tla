------------------------------ MODULE FMode ------------------------------
(***************************************************************************)
(* The f-string mode machine of the scanner (peg_parser/tokenize.py:       *)
(* ModeMiddle / ModeInBraces / ModeInColon on the end_progs stack, each    *)
(* with the bracket level it was entered at; next_psuedo_matches and       *)
(* handle_fstring_progs) -- the state the C10 property is anchored in.     *)
(*                                                                         *)
(* An input is one physical line  f' <pieces> [']  : a sequence of pieces  *)
(* drawn from the table Piece.  The SAME piece means different things in   *)
(* different modes, which is the whole point of the machine:               *)
(*   mid    literal text of the string; "{{" "}}" stay text; "{" opens a   *)
(*          replacement field; the own quote ends the literal              *)
(*   brace  expression tokens; brackets move the level; "}" (or any closer)*)
(*          at the level of the field closes it; ":" at that level opens   *)
(*          the format spec, ":=" there is ":" followed by "="             *)
(*   colon  literal spec text up to "{" (nested field) or "}" (end of the  *)
(*          field); braces are never doubled here; the own quote ends the  *)
(*          scan with an error, and so does a fourth nesting level         *)
(* The module predicts the complete token stream with coordinates, or      *)
(* "TokenError" when the line ends inside the literal.                     *)
(*                                                                         *)
(* Laws checked by TLC in every reachable state:                           *)
(*   StackShape       the bottom frame is a mid; a colon sits directly on  *)
(*                    the brace frame of the same level; a brace sits on a *)
(*                    mid or a colon                                       *)
(*   LevelsIncrease   frame levels never decrease upwards and never exceed *)
(*                    the current bracket level                            *)
(*   NoOverlap        tokens are emitted in order and never overlap        *)
(*   EndAtBase        FSTRING_END is only emitted from a mid frame, and    *)
(*                    after it the stack is empty                          *)
(*   FieldsBalanced   when the literal has ended, every "{" that opened a  *)
(*                    field has been closed                                *)
(* harness/fmode.py renders the texts, runs the real scanner and compares; *)
(* the texts also feed C02 / C03 / C08 / C10.                              *)
(***************************************************************************)
EXTENDS Naturals, Sequences, FiniteSets, TLC, Json, CSV, IOUtils
CONSTANTS MaxPieces, Use

P(t, cls) == [t |-> t, cls |-> cls]
Piece == <<
  P("a", "name"), P(" ", "ws"), P("{", "lb"), P("}", "rb"), P("{{", "lblb"), P("}}", "rbrb"),          \* 1-6
  P(":", "colon"), P("!r", "conv"), P("=", "eq"), P("(", "open"), P(")", "close"), P("[", "open"),     \* 7-12
  P("]", "close"), P("'", "quote"), P("\"s\"", "str"), P(":=", "walrus"), P("\\n", "esc"), P(">5", "text"), \* 13-18
  P(",", "op"), P("1", "num"), P("\\N{DOT}", "nesc"), P("#", "hash")                                     \* 19-22
>>
Start == "f'"

Frame(k, lev) == [k |-> k, lev |-> lev]
VARIABLES pieces,   \* piece indices consumed so far
          stack,    \* mode frames, bottom first
          lev,      \* current bracket level
          col,      \* current column
          buf,      \* pending literal text <<text, start column>> or <<>>
          toks,     \* emitted tokens <<type, text, start col, end col>>
          ended,    \* the literal has been closed
          dead      \* the scanner has given up (TokenError): the spec met the closing quote, or fields nest too deeply
vars == <<pieces, stack, lev, col, buf, toks, ended, dead>>

Init == pieces = <<>> /\ stack = <<Frame("mid", 0)>> /\ lev = 0 /\ col = 2 /\ buf = <<>>
        /\ toks = << <<"FSTRING_START", Start, 0, 2>> >> /\ ended = FALSE /\ dead = FALSE

Top == stack[Len(stack)]
Pop(s) == SubSeq(s, 1, Len(s) - 1)
Flush == IF buf = <<>> THEN <<>> ELSE << <<"FSTRING_MIDDLE", buf[1], buf[2], col>> >>
Lit(t) == IF buf = <<>> THEN <<t, col>> ELSE <<buf[1] \o t, buf[2]>>
Tok(ty, t, at) == <<ty, t, at, at + Len(t)>>

\* ---- one piece in the mode on top of the stack --------------------------------
InMid(p) ==
  LET t == Piece[p].t  c == Piece[p].cls IN
  IF c = "lb"
  THEN /\ toks' = toks \o Flush \o << Tok("OP", "{", col) >>
       /\ buf' = <<>> /\ lev' = lev + 1 /\ stack' = Append(stack, Frame("brace", lev + 1)) /\ ended' = FALSE
  ELSE IF c = "quote"
  THEN /\ toks' = toks \o Flush \o << Tok("FSTRING_END", "'", col) >>
       /\ buf' = <<>> /\ stack' = Pop(stack) /\ ended' = TRUE /\ UNCHANGED lev
  ELSE /\ buf' = Lit(t) /\ UNCHANGED <<toks, stack, lev, ended>>      \* text: names, blanks, "{{", "}}", "}", ":", brackets, escapes

\* brackets and closers seen while in an expression; a closer at the level of the field ends the field whatever its kind
CloseIn(t, at) ==
  /\ toks' = toks \o << Tok("OP", t, at) >>
  /\ lev' = lev - 1
  /\ stack' = IF Top.lev = lev THEN Pop(stack) ELSE stack
  /\ UNCHANGED <<buf, ended>>

InBrace(p) ==
  LET t == Piece[p].t  c == Piece[p].cls IN
  CASE c = "name" -> toks' = toks \o << Tok("NAME", t, col) >> /\ UNCHANGED <<stack, lev, buf, ended>>
    [] c = "num"  -> toks' = toks \o << Tok("NUMBER", t, col) >> /\ UNCHANGED <<stack, lev, buf, ended>>
    [] c = "str"  -> toks' = toks \o << Tok("STRING", t, col) >> /\ UNCHANGED <<stack, lev, buf, ended>>
    [] c = "ws"   -> UNCHANGED <<toks, stack, lev, buf, ended>>                      \* WS tokens are not compared
    [] c \in {"eq", "op"} -> toks' = toks \o << Tok("OP", t, col) >> /\ UNCHANGED <<stack, lev, buf, ended>>
    [] c = "conv" -> toks' = toks \o << Tok("OP", "!", col), Tok("NAME", "r", col + 1) >> /\ UNCHANGED <<stack, lev, buf, ended>>
    [] c \in {"open", "lb"} -> toks' = toks \o << Tok("OP", t, col) >> /\ lev' = lev + 1 /\ UNCHANGED <<stack, buf, ended>>
    [] c \in {"close", "rb"} -> CloseIn(t, col)
    [] c = "colon" -> /\ toks' = toks \o << Tok("OP", ":", col) >>
                      /\ stack' = IF Top.lev = lev THEN Append(stack, Frame("colon", lev)) ELSE stack
                      /\ UNCHANGED <<lev, buf, ended>>
    [] c = "walrus" -> IF Top.lev = lev
                       THEN /\ toks' = toks \o << Tok("OP", ":", col) >>           \* the "=" is the first character of the spec
                            /\ stack' = Append(stack, Frame("colon", lev)) /\ buf' = <<"=", col + 1>> /\ UNCHANGED <<lev, ended>>
                       ELSE toks' = toks \o << Tok("OP", ":=", col) >> /\ UNCHANGED <<stack, lev, buf, ended>>
    [] OTHER -> FALSE                                                             \* lblb / rbrb / quote / esc / nesc / text / hash: see Allowed

MaxFieldNesting == 3
OpenFields == Cardinality({i \in 1..Len(stack) : stack[i].k = "brace"})
InColon(p) ==
  LET t == Piece[p].t  c == Piece[p].cls IN
  IF c = "quote" \/ (c = "lb" /\ OpenFields >= MaxFieldNesting)
  THEN UNCHANGED <<toks, stack, lev, buf, ended>>                    \* (dead is set by Step) the spec cannot run past the closing quote / nest deeper
  ELSE IF c = "lb"
  THEN /\ toks' = toks \o Flush \o << Tok("OP", "{", col) >>
       /\ buf' = <<>> /\ lev' = lev + 1 /\ stack' = Append(stack, Frame("brace", lev + 1)) /\ UNCHANGED ended
  ELSE IF c = "rb"
  THEN /\ toks' = toks \o Flush \o << Tok("OP", "}", col) >>
       /\ buf' = <<>> /\ lev' = lev - 1 /\ stack' = Pop(Pop(stack)) /\ UNCHANGED ended
  ELSE /\ buf' = Lit(t) /\ UNCHANGED <<toks, stack, lev, ended>>      \* everything else is spec text

\* pieces that would need sub-machines of their own (strings, comments, doubled braces read one brace at a time) are kept
\* out of the modes where they are not plain text
Allowed(p) ==
  LET c == Piece[p].cls
      prev == IF pieces = <<>> THEN "" ELSE Piece[pieces[Len(pieces)]].cls
      \* the field was opened by the previous piece while in the literal part: "{" + "{" there is the text "{{"
      fresh == prev = "lb" /\ Top.k = "brace" /\ Len(stack) >= 2 /\ stack[Len(stack) - 1].k = "mid"
  IN
  CASE Top.k = "mid"   -> TRUE
    [] Top.k = "brace" -> /\ c \notin {"lblb", "rbrb", "quote", "esc", "nesc", "text", "hash"}
                          /\ ~(fresh /\ c = "lb")
                          \* two pieces that would fuse into one lexeme (maximal munch) are not written next to each other
                          /\ ~(prev \in {"name", "num", "conv"} /\ c \in {"name", "num"})
                          /\ ~(prev \in {"eq", "colon", "walrus"} /\ c = "eq")
    [] Top.k = "colon" -> c \notin {"lblb", "rbrb"}

Step(p) ==
  /\ ~ended /\ Len(pieces) < MaxPieces /\ p \in Use /\ Allowed(p)
  /\ pieces' = Append(pieces, p)
  /\ col' = col + Len(Piece[p].t)
  /\ IF dead THEN UNCHANGED <<toks, stack, lev, buf, ended, dead>>          \* whatever follows, the outcome stays TokenError
     ELSE CASE Top.k = "mid" -> InMid(p) /\ dead' = FALSE
            [] Top.k = "brace" -> InBrace(p) /\ dead' = FALSE
            [] Top.k = "colon" -> InColon(p) /\ (dead' = (Piece[p].cls = "quote" \/ (Piece[p].cls = "lb" /\ OpenFields >= MaxFieldNesting)))
Next == \E p \in 1..Len(Piece) : Step(p)

\* ---- end of the line ----------------------------------------------------------------
Outcome == IF ended THEN "ok" ELSE "TokenError"
EndTokens == << <<"NEWLINE", "", col, col + 1>>, <<"ENDMARKER", "", 0, 0>> >>
RECURSIVE Text(_)
Text(s) == IF s = <<>> THEN "" ELSE Piece[Head(s)].t \o Text(Tail(s))
Src == Start \o Text(pieces)

\* ---- laws -----------------------------------------------------------------------------
StackShape ==
  /\ (stack # <<>>) => stack[1].k = "mid"
  /\ \A i \in 2..Len(stack) :
       /\ stack[i].k = "colon" => (stack[i - 1].k = "brace" /\ stack[i - 1].lev = stack[i].lev)
       /\ stack[i].k = "brace" => stack[i - 1].k \in {"mid", "colon"}
       /\ stack[i].k # "mid"
LevelsIncrease ==
  /\ \A i \in 1..(Len(stack) - 1) : stack[i].lev <= stack[i + 1].lev
  /\ (stack # <<>> /\ lev >= 0) => (Top.lev <= lev \/ Top.k = "mid")
NoOverlap == \A i \in 1..(Len(toks) - 1) : toks[i][4] <= toks[i + 1][3]
EndAtBase == ended => (stack = <<>> /\ toks[Len(toks)][1] = "FSTRING_END")
FieldsBalanced == ended =>
   Cardinality({i \in 1..Len(toks) : toks[i][1] = "OP" /\ toks[i][2] \in {"{", "(", "["}})
     = Cardinality({i \in 1..Len(toks) : toks[i][1] = "OP" /\ toks[i][2] \in {"}", ")", "]"}})

Export == pieces # <<>> => CSVWrite("%1$s", <<ToJson([src |-> Src, pieces |-> pieces, outcome |-> Outcome,
                                                      toks |-> IF ended THEN toks \o EndTokens ELSE toks])>>, IOEnv.OUT)
=============================================================================
