------------------------------ MODULE AstEq ------------------------------
(***************************************************************************)
(* C01 / C05 / C10 / C12 / C13 / C14 / C15: equality of two flattened      *)
(* trees, as a trace specification.  A tree is flattened in pre-order into *)
(* rows; a row is sent as three small digests                              *)
(*    <<s, v, p>>  s = structure (depth, node type, field, index, shape)   *)
(*                 v = scalar field values (identifiers, constants, ops)   *)
(*                 p = span (lineno, col_offset, end_lineno, end_col)      *)
(* A trace is [id, aok, bok, a, b, pos]: aok/bok = the implementation / the *)
(* reference accepted the input (rows are empty otherwise);                *)
(* a = rows of the implementation, b = rows of                             *)
(* the reference (CPython / the other entry point / the stand-alone        *)
(* parse), pos = whether spans take part in the comparison.  One step per  *)
(* row; the verdict names the first differing aspect.                      *)
(***************************************************************************)
EXTENDS Naturals, Sequences, TLC, Json, CSV, IOUtils
Traces == ndJsonDeserialize(IOEnv.TRACE_FILE)
VARIABLES tid, k, verdict
T == Traces[tid]
Clause(i) ==
  IF T.bok /\ ~T.aok THEN "implementation_rejects_what_reference_accepts"
  ELSE IF T.aok /\ ~T.bok THEN "implementation_accepts_what_reference_rejects"
  ELSE IF i > Len(T.a) THEN "tree_missing_nodes"
  ELSE IF i > Len(T.b) THEN "tree_extra_nodes"
  ELSE IF T.a[i][1] # T.b[i][1] THEN "node_type_or_structure"
  ELSE IF T.a[i][2] # T.b[i][2] THEN "field_values"
  ELSE IF T.pos /\ T.a[i][3] # T.b[i][3] THEN "span"
  ELSE "ok"
Max(x, y) == IF x > y THEN x ELSE y
TInit == tid \in 1..Len(Traces) /\ k = 1 /\ verdict = "run"
Step == /\ verdict = "run" /\ (k <= Max(Len(T.a), Len(T.b)) \/ (k = 1 /\ T.aok # T.bok))
        /\ LET c == Clause(k) IN
             /\ verdict' = IF c = "ok" THEN "run" ELSE c
             /\ k' = IF c = "ok" THEN k + 1 ELSE k
        /\ tid' = tid
\* C05: T.want = <<l, c, el, ec>> of the inserted construct (or <<>>), T.spans = spans of all implementation nodes
SpanClause == IF T.want # <<>> /\ ~(\E i \in 1..Len(T.spans) : T.spans[i] = T.want) THEN "construct_node_does_not_span_its_text" ELSE "ok"
Finish == verdict = "run" /\ k > Max(Len(T.a), Len(T.b)) /\ ~(k = 1 /\ T.aok # T.bok) /\ verdict' = SpanClause /\ UNCHANGED <<tid, k>>
TNext == Step \/ Finish
TVerdict == (verdict # "run") => CSVWrite("%1$s %2$s %3$s", <<T.id, verdict, k>>, IOEnv.VERDICT_FILE)
=============================================================================
