------------------------------ MODULE Peg ------------------------------
(***************************************************************************)
(* C17 -- PEG semantics of the generator's notation, with pegen's seed     *)
(* growing for left recursion.  This module is the ORACLE: TLC evaluates   *)
(* Sem for every (grammar, token string) and exports what a generated      *)
(* parser must compute: accept / fail / raise, the end position, and the   *)
(* action value.                                                           *)
(*                                                                         *)
(* A grammar is [rules, names]: rules = a sequence of [memo, leader, alts],  *)
(* names = the token texts the NAME token kind matches (a word is a        *)
(* keyword, hence no NAME, only if the grammar uses it as a literal);      *)
(* an alternative is [items, tag]; the action of every alternative is the  *)
(* tuple (tag, v1, .., vn) of the values of its value-carrying items       *)
(* (everything except lookaheads, forced items and cuts: the notation      *)
(* cannot name those); an item is                                          *)
(*   [k, t, r, x, s, alts]  with k in                                      *)
(*   tok (token text t) | rule (index r) | opt | star | plus (of x[1]) |   *)
(*   gather (elements x[1] separated by s[1]) | group (alts) |             *)
(*   and | not (lookahead of x[1]) | cut | forced (x[1], failure raises).  *)
(* Values: a token is its text, an optional that is absent is "none",      *)
(* repetitions and gathers are sequences, a rule / group is its action     *)
(* tuple.  leader = the rule is the leader of a left-recursive cycle       *)
(* (computed by harness/pegfam.py independently of the generator).         *)
(***************************************************************************)
EXTENDS Naturals, Sequences, TLC, Json, CSV, IOUtils
CONSTANTS Grammars,    \* sequence of grammars
          Alphabet,    \* set of token texts
          MaxLen       \* bound on the token string length

Fail == [st |-> "fail"]
Raise == [st |-> "raise"]
Ok(v, e) == [st |-> "ok", val |-> v, end |-> e]

RECURSIVE Item(_, _, _, _, _), Alt(_, _, _, _, _, _, _), Alts(_, _, _, _, _), Rule(_, _, _, _, _), Grow(_, _, _, _, _, _), Rep(_, _, _, _, _, _), GRep(_, _, _, _, _, _, _)

\* seeds: set of <<rule, pos, result>> for the left-recursive leaders currently being grown
SeedOf(seeds, r, i) == {s \in seeds : s[1] = r /\ s[2] = i}

Rule(G, W, r, i, seeds) ==
  LET s == SeedOf(seeds, r, i) IN
  IF s # {} THEN (CHOOSE x \in s : TRUE)[3]
  ELSE IF G.rules[r].leader THEN Grow(G, W, r, i, seeds, Fail)
  ELSE Alts(G, W, G.rules[r].alts, i, seeds)

Grow(G, W, r, i, seeds, last) ==             \* memoize_left_rec: prime with failure, iterate while it gets longer
  LET s2 == {s \in seeds : ~(s[1] = r /\ s[2] = i)} \cup {<<r, i, last>>}
      res == Alts(G, W, G.rules[r].alts, i, s2)
  IN IF res.st = "raise" THEN Raise
     ELSE IF res.st = "fail" THEN last
     ELSE IF last.st = "ok" /\ res.end <= last.end THEN last
     ELSE Grow(G, W, r, i, seeds, res)

Alts(G, W, alts, i, seeds) ==                 \* ordered choice with cut
  IF alts = <<>> THEN Fail
  ELSE LET a == Alt(G, W, Head(alts).items, Head(alts).tag, i, seeds, <<<<>>, FALSE>>) IN
       IF a.st = "ok" \/ a.st = "raise" THEN a
       ELSE IF a.cut THEN Fail                \* a cut was passed: no further alternatives
       ELSE Alts(G, W, Tail(alts), i, seeds)

\* the action: an explicit action builds the tuple (tag, v1, .., vn); the default action ("@default") returns the single
\* value-carrying item as it is, or the list of them
ActionValue(tag, vals) == IF tag = "@default" THEN (IF Len(vals) = 1 THEN vals[1] ELSE vals) ELSE <<tag>> \o vals
\* acc = <<values so far, cut passed>>
Alt(G, W, items, tag, i, seeds, acc) ==
  IF items = <<>> THEN Ok(ActionValue(tag, acc[1]), i)
  ELSE LET it == Head(items) IN
       IF it.k = "cut" THEN Alt(G, W, Tail(items), tag, i, seeds, <<acc[1], TRUE>>)
       ELSE LET x == Item(G, W, it, i, seeds) IN
            IF x.st = "raise" THEN Raise
            ELSE IF x.st = "fail" THEN [st |-> "fail", cut |-> acc[2]]
            ELSE Alt(G, W, Tail(items), tag, x.end, seeds,
                     <<IF it.k \in {"and", "not", "forced"} THEN acc[1] ELSE Append(acc[1], x.val), acc[2]>>)

Item(G, W, it, i, seeds) ==
  CASE it.k = "tok"    -> IF i <= Len(W) /\ (W[i] = it.t \/ (it.t = "n" /\ W[i] \in G.names)) THEN Ok(W[i], i + 1) ELSE Fail
    [] it.k = "rule"   -> Rule(G, W, it.r, i, seeds)
    [] it.k = "opt"    -> LET x == Item(G, W, it.x[1], i, seeds) IN IF x.st = "fail" THEN Ok("none", i) ELSE x
    [] it.k = "star"   -> Rep(G, W, it.x[1], i, seeds, <<>>)
    [] it.k = "plus"   -> LET x == Rep(G, W, it.x[1], i, seeds, <<>>) IN IF x.st = "ok" /\ x.val = <<>> THEN Fail ELSE x
    [] it.k = "gather" -> LET x == Item(G, W, it.x[1], i, seeds) IN
                          IF x.st # "ok" THEN x ELSE GRep(G, W, it.x[1], it.s[1], x.end, seeds, <<x.val>>)
    [] it.k = "group"  -> Alts(G, W, it.alts, i, seeds)
    [] it.k = "and"    -> LET x == Item(G, W, it.x[1], i, seeds) IN IF x.st = "ok" THEN Ok("lookahead", i) ELSE x
    [] it.k = "not"    -> LET x == Item(G, W, it.x[1], i, seeds) IN
                          IF x.st = "ok" THEN Fail ELSE IF x.st = "raise" THEN Raise ELSE Ok("lookahead", i)
    [] it.k = "forced" -> LET x == Item(G, W, it.x[1], i, seeds) IN IF x.st = "fail" THEN Raise ELSE x
    [] OTHER           -> Fail

Rep(G, W, x, i, seeds, acc) ==                \* zero or more (WellFormed: every success consumes input)
  LET r == Item(G, W, x, i, seeds) IN
  IF r.st = "raise" THEN Raise
  ELSE IF r.st = "fail" \/ r.end = i THEN Ok(acc, i)
  ELSE Rep(G, W, x, r.end, seeds, Append(acc, r.val))

GRep(G, W, x, sep, i, seeds, acc) ==          \* (sep x)* after the first element of a gather
  LET s == Item(G, W, sep, i, seeds) IN
  IF s.st = "raise" THEN Raise
  ELSE IF s.st = "fail" THEN Ok(acc, i)
  ELSE LET r == Item(G, W, x, s.end, seeds) IN
       IF r.st = "raise" THEN Raise
       ELSE IF r.st = "fail" THEN Ok(acc, i)  \* separator without element: give it back
       ELSE GRep(G, W, x, sep, r.end, seeds, Append(acc, r.val))

Sem(G, W) == Rule(G, W, 1, 1, {})             \* rule 1 is the start rule

\* ---- generator: grammar x token string ---------------------------------------------------
VARIABLES g, w
Init == g \in 1..Len(Grammars) /\ w = <<>>
Next == Len(w) < MaxLen /\ \E t \in Alphabet : w' = Append(w, t) /\ g' = g
Result == LET s == Sem(Grammars[g], w) IN
          [g |-> g, w |-> w, st |-> s.st, end |-> IF s.st = "ok" THEN s.end - 1 ELSE 0, val |-> IF s.st = "ok" THEN s.val ELSE <<>>]
Export == CSVWrite("%1$s", <<ToJson(Result)>>, IOEnv.OUT)
=============================================================================
