------------------------------ MODULE Macro ------------------------------
(***************************************************************************)
(* C07 -- macros receive the verbatim source text of their arguments/body. *)
(*                                                                         *)
(* Three generators with their expectations (the oracle is this model, an  *)
(* independent description of "the text between the delimiters", not a     *)
(* re-run of the token join):                                              *)
(*  Kind = "call":  f!(a1, a2, ...)  each argument = optional blank, 1..K  *)
(*     segments, optional blank; segments are balanced-bracket groups,     *)
(*     string literals containing commas / brackets, keywords, operators,  *)
(*     xonsh constructs, text that is not valid Python, comments and       *)
(*     newlines inside brackets.  Expected = the exact argument texts; a   *)
(*     trailing comma (with or without blank) adds no argument.            *)
(*  Kind = "proc":  <open>cmd! rest<close>   Expected = <<cmd, Strip(rest)>>*)
(*  Kind = "with":  with! ctx: + indented block (nested indentation, blank *)
(*     and comment lines) or one-line form; Expected = the block's lines   *)
(*     with the block indentation removed / the rest of the line.          *)
(* Every case carries a host (text before / after the macro on the same    *)
(* line) and a follower statement that must parse as if it stood alone.    *)
(***************************************************************************)
EXTENDS Naturals, Sequences, TLC, Json, CSV, IOUtils
CONSTANTS Kind, MaxArgs, MaxSegs, SegUse, MaxLines, HostUse, FolUse, TrailUse

Segs == <<
  "x", "y+1", "[a, b]", "(c, d)", "{e: f, g: h}", "'i, j'", "\"k)\"", "lambda: 1", "if", "$HOME",          \* 1-10
  "$(ls, -l)", "![a b]", "@(p, q)", "x y z", "1 +", "..", "*args", "**kw", "k=v", "f(1)(2)",               \* 11-20
  "[(,)]", "(a, # c\n b)", "(a,\n b)", "'''t,\nu'''", "f'{a},{b}'", "f'{v, w}'", "f'a,b'", "f'{k}){v}'", "g!(h, i)", "~u00e9~", \* 21-30
  "not in", "->", "${u}", "`*.py`", "p'/q'", "a ? b", "!", "0x1F", "{,}", "'\\''",                         \* 31-40
  "~ufb01~le", "~u00b5~s", "~uff41~~uff42~", "x~u00b2~", "~u2160~v", "K~u212a~",                                       \* 41-46 compatibility characters (NFKC would change them)
  "f\"\"\"abc\n{x}\"\"\"", "f'''a{b}\n{c}{d}\n'''", "f'a\\\n{x}'", "f\"\"\"{x:>{w}}\n{y!r}, z\"\"\""                      \* 47-50 multi-row f-strings: a field opens a row
>>
Blanks == {"", " "}

RECURSIVE Cat(_)
Cat(ss) == IF ss = <<>> THEN "" ELSE Head(ss) \o Cat(Tail(ss))
RECURSIVE Join(_, _)
Join(ss, sep) == IF ss = <<>> THEN "" ELSE IF Len(ss) = 1 THEN ss[1] ELSE ss[1] \o sep \o Join(Tail(ss), sep)

\* hosts: <<text before the macro, text after it on the same line, is an expression host>>
Hosts == << <<"", "">>, <<"r = ", "">>, <<"g(", ", 2)">>, <<"[", "][0]">>, <<"", "; w = 3">>, <<"x = 1; ", "">>,
            <<"if c: ", "">>, <<"q = 1 + ", " + 2">> >>
\* 5-7: the follower is itself a macro ("code following a macro is unaffected" includes the next macro: it must receive
\* its own text and nothing of the one before)
Followers == <<"", "y = 1\n", "def h():\n    return [1,\n        2]\n", "z = $(ls)\n",
               "with! c2:\n    q r\n    s\n", "g!(u, v w)\n", "with! c3: t u\n">>

VARIABLES args, done, host, fol, trail
vars == <<args, done, host, fol, trail>>

\* ---------------------------------------------------------------- call macro
ArgText(a) == a.l \o Cat([i \in 1..Len(a.s) |-> Segs[a.s[i]]]) \o a.r
CallSrc == Hosts[host][1] \o "f!(" \o Join([i \in 1..Len(args) |-> ArgText(args[i])], ",") \o trail \o ")" \o Hosts[host][2] \o "\n"
              \o Followers[fol]
CallInit == args = <<>> /\ done = FALSE /\ host \in HostUse /\ fol \in FolUse /\ trail \in TrailUse
CallNext ==
  /\ ~done
  /\ \/ /\ Len(args) < MaxArgs
        /\ \E l \in Blanks : \E r \in Blanks : \E n \in 1..MaxSegs : \E s \in [1..n -> SegUse] :
             args' = Append(args, [l |-> l, s |-> s, r |-> r])
        /\ UNCHANGED <<done, host, fol, trail>>
     \/ /\ args # <<>> /\ done' = TRUE /\ UNCHANGED <<args, host, fol, trail>>
CallCase == [kind |-> "call", src |-> CallSrc, want |-> [i \in 1..Len(args) |-> ArgText(args[i])],
             follower |-> Followers[fol], host |-> host]

\* ---------------------------------------------------------------- subprocess macro
Opens == << <<"$(", ")">>, <<"$[", "]">>, <<"!(", ")">>, <<"![", "]">> >>
Rests == <<"hello  world", "-c 'x' (a b) [c]", "a, b; c", "if x: y", "$HOME `*`", "--opt=1 2>&1", "~u00e9~ \"q\"", "1 + + 2", "", "x",
           "cat ~ufb01~le.txt ~u00b5~s", "f(a, b) xs[1: 2] tail", "( a ( b ) ) [ c ]",
           "a f'{x} y' b", "{a: [b, {c}]} ${x} {d,e}.txt", "g`*.py` f\"{u!r:>{w}} v\" r`x+`">>
Pads == {"", " ", "  "}
ProcCases == { [kind |-> "proc", src |-> Hosts[h][1] \o Opens[o][1] \o "echo!" \o pl \o Rests[r] \o pr \o Opens[o][2] \o Hosts[h][2] \o "\n" \o Followers[f],
                want |-> <<"echo", Rests[r]>>, follower |-> Followers[f], host |-> h,
                callform |-> (r = 13 /\ pl = "")]            \* "cmd!(" would be a call macro: not a case
              : h \in {1, 2, 3, 5}, o \in 1..Len(Opens), r \in 1..Len(Rests), pl \in Pads, pr \in Pads, f \in {1, 2} }

\* ---------------------------------------------------------------- with macro
\* a block line: <<extra indentation levels, text>>; text "" = blank line
\* 11: a bracketed statement whose second row starts in column 0 (free inside brackets); level 9 = a comment written LEFT of
\* the block, at the indentation of the with statement itself.  "Dedented" means: the margin common to all non-blank rows is
\* removed - such rows make that margin shorter than the block's indentation
LineTexts == <<"a b c", "d = [1, 2]", "", "# c", "if q:", "$(ls) x", "'s, t'", "else: (", "~u00e9~", "~ufb01~le ~u00b5~s", "e = [1,\n2]">>
Left == 9
Units == <<"    ", "\t", "  ">>
Outer == <<"", "if c:\n">>     \* the with statement at top level, or inside an if block
VARIABLES lines, unit, outer
wvars == <<lines, unit, outer, done, fol>>
RECURSIVE Ind(_, _)
Ind(n, u) == IF n = 0 THEN "" ELSE u \o Ind(n - 1, u)
Balanced(t) == t \notin {"else: ("}   \* texts with an unclosed bracket would swallow the following line
LineSrc(base, o, ln, u) == IF ln[2] = "" THEN "\n" ELSE IF ln[1] = Left THEN o \o ln[2] \o "\n" ELSE base \o Ind(ln[1], u) \o ln[2] \o "\n"
\* keep: what is left of the block's indentation once the common margin is removed; okeep: the same for a row written at o
LineWant(ln, u, keep, okeep) == IF ln[2] = "" THEN "\n" ELSE IF ln[1] = Left THEN okeep \o ln[2] \o "\n" ELSE keep \o Ind(ln[1], u) \o ln[2] \o "\n"
IsCode(ln) == ln[2] # "" /\ ln[2] # "# c"
RECURSIVE LastCodeLevel(_)
LastCodeLevel(ls) == IF ls = <<>> THEN 0 ELSE IF IsCode(ls[Len(ls)]) THEN ls[Len(ls)][1] ELSE LastCodeLevel(SubSeq(ls, 1, Len(ls) - 1))
WithInit == lines = <<>> /\ done = FALSE /\ unit \in 1..Len(Units) /\ outer \in 1..Len(Outer) /\ fol \in FolUse
            /\ (outer = 1 \/ fol \notin {3, 5})      \* multi-line followers are written for the top level
WithNext ==
  /\ ~done
  /\ \/ /\ Len(lines) < MaxLines
        /\ \E t \in 1..Len(LineTexts) : \E n \in 0..2 :
             /\ Balanced(LineTexts[t])
             /\ (lines = <<>> => (n = 0 /\ LineTexts[t] # ""))          \* first line defines the block indentation
             /\ (lines # <<>> /\ n > 0 => n <= LastCodeLevel(lines) + 1 \/ LineTexts[t] = "")   \* an indentation level is opened by a code line only
             \* the block's indentation is that of its first CODE line (comments before it do not count, as in Python)
             /\ ((IsCode(<<n, LineTexts[t]>>) /\ ~(\E i \in 1..Len(lines) : IsCode(lines[i]))) => n = 0)
             /\ lines' = Append(lines, <<IF LineTexts[t] = "" THEN 0 ELSE n, LineTexts[t]>>)
        /\ UNCHANGED <<done, unit, outer, fol>>
     \/ /\ Len(lines) < MaxLines /\ (\E i \in 1..Len(lines) : IsCode(lines[i]))        \* a comment left of the block, in its middle
        /\ lines[Len(lines)][1] # Left
        /\ lines' = Append(lines, <<Left, "# c">>)
        /\ UNCHANGED <<done, unit, outer, fol>>
     \/ /\ lines # <<>> /\ lines[Len(lines)][2] # "" /\ (\E i \in 1..Len(lines) : IsCode(lines[i]))      \* a block holds at least one statement
        \* (what follows the last statement left of the block is not the block's, nor are the comment rows after it)
        /\ \A i \in 1..Len(lines) : lines[i][1] = Left => \E j \in (i + 1)..Len(lines) : IsCode(lines[j])
        /\ done' = TRUE /\ UNCHANGED <<lines, unit, outer, fol>>
WithSrc ==
  LET u == Units[unit]
      o == IF outer = 1 THEN "" ELSE u          \* indentation of the with statement itself
      base == o \o u
  IN Outer[outer] \o o \o "with! ctx:\n" \o Cat([i \in 1..Len(lines) |-> LineSrc(base, o, lines[i], u)])
       \o (IF Followers[fol] = "" THEN "" ELSE o \o Followers[fol])
WithWant ==
  LET u == Units[unit]
      o == IF outer = 1 THEN "" ELSE u
      col0 == \E i \in 1..Len(lines) : lines[i][2] = "e = [1,\n2]"      \* a row in column 0: nothing is common
      left == \E i \in 1..Len(lines) : lines[i][1] = Left                \* a row at o: o is common
      keep == IF col0 THEN o \o u ELSE IF left THEN u ELSE ""
      okeep == IF col0 THEN o ELSE ""
  IN Cat([i \in 1..Len(lines) |-> LineWant(lines[i], u, keep, okeep)])
WithCase == [kind |-> "with", src |-> WithSrc, want |-> <<WithWant>>,
             follower |-> Followers[fol], host |-> outer]
OneLiners == { [kind |-> "with1", src |-> "with! ctx:" \o t \o "\n" \o Followers[f], want |-> <<t \o "\n">>, follower |-> Followers[f], host |-> 1]
               : t \in {" one liner  ", "x", " a; b ", " $(ls) 'q'  # c", " [1, 2] if z"}, f \in {1, 2, 5, 7} }

\* ---------------------------------------------------------------- dispatch
Init == IF Kind = "call" THEN CallInit /\ lines = <<>> /\ unit = 1 /\ outer = 1
        ELSE IF Kind = "with" THEN WithInit /\ args = <<>> /\ host = 1 /\ trail = ""
        ELSE args = <<>> /\ done = TRUE /\ host = 1 /\ fol = 1 /\ trail = "" /\ lines = <<>> /\ unit = 1 /\ outer = 1
Next == IF Kind = "call" THEN CallNext /\ UNCHANGED <<lines, unit, outer>>
        ELSE IF Kind = "with" THEN WithNext /\ UNCHANGED <<args, host, trail>>
        ELSE FALSE
Export ==
  CASE Kind = "call" -> (done => CSVWrite("%1$s", <<ToJson(CallCase)>>, IOEnv.OUT))
    [] Kind = "with" -> (done => CSVWrite("%1$s", <<ToJson(WithCase)>>, IOEnv.OUT))
    [] OTHER -> \A c \in {x \in ProcCases : ~x.callform} \cup OneLiners : CSVWrite("%1$s", <<ToJson(c)>>, IOEnv.OUT)
=============================================================================
