------------------------------ MODULE Pure ------------------------------
(***************************************************************************)
(* C13 -- parsing is a pure function.                                      *)
(*                                                                         *)
(* Generator part (module PureGen): Histories (every sequence of up to MaxLen calls over a  *)
(* pool of PoolSize call descriptions) and Schedules (every interleaving   *)
(* of two parses that take N1 and N2 token pulls: a sequence over {1, 2}). *)
(* Trace part: a recorded history is [id, steps, kept]; a step is          *)
(* <<call, got, want>> with want = the outcome digest of the same call in  *)
(* a fresh interpreter; kept = <<digest when returned, digest at the end>> *)
(* for every tree the history kept.  Law: got = want at every step         *)
(* (the outcome depends on the text and options only), and no kept tree    *)
(* changes after it was returned.                                          *)
(***************************************************************************)
EXTENDS Naturals, Sequences, TLC, Json, CSV, IOUtils

\* ---- trace validation ---------------------------------------------------------------------
Traces == ndJsonDeserialize(IOEnv.TRACE_FILE)
VARIABLES tid, k, verdict
T == Traces[tid]
TInit == tid \in 1..Len(Traces) /\ k = 1 /\ verdict = "run"
Step == /\ verdict = "run" /\ k <= Len(T.steps)
        /\ LET s == T.steps[k] IN
             /\ verdict' = IF s[2] = s[3] THEN "run" ELSE "outcome_depends_on_history_or_schedule"
             /\ k' = IF s[2] = s[3] THEN k + 1 ELSE k
        /\ tid' = tid
Finish == /\ verdict = "run" /\ k > Len(T.steps)
          /\ verdict' = IF \E i \in 1..Len(T.kept) : T.kept[i][1] # T.kept[i][2] THEN "returned_tree_mutated_by_later_parse" ELSE "ok"
          /\ UNCHANGED <<tid, k>>
TNext == Step \/ Finish
TVerdict == (verdict # "run") => CSVWrite("%1$s %2$s %3$s", <<T.id, verdict, k>>, IOEnv.VERDICT_FILE)
=============================================================================
