------------------------------ MODULE WordSplit ------------------------------
(***************************************************************************)
(* Trace specification for C06 (arguments of a subprocess call) and C07    *)
(* (captured macro texts): the recorded projection of the real tree must   *)
(* equal what the model (Subproc!Args / Macro!Expected) prescribes.        *)
(* A trace is [id, ok, func, wfunc, after, got, want]: after = "ok" iff the *)
(* code following the construct parsed as it does on its own;              *)
(* got / want = sequences of                                               *)
(* arguments, an argument = a sequence of descriptor strings.  One step    *)
(* per argument; the first differing argument is reported.                 *)
(***************************************************************************)
EXTENDS Naturals, Sequences, TLC, Json, CSV, IOUtils
Traces == ndJsonDeserialize(IOEnv.TRACE_FILE)
VARIABLES tid, k, verdict
T == Traces[tid]
Max(x, y) == IF x > y THEN x ELSE y
Clause(i) ==
  IF ~T.ok THEN "rejected_by_implementation"
  ELSE IF T.func # T.wfunc THEN "wrong_runtime_function"
  ELSE IF T.after # "ok" THEN "following_code_affected"
  ELSE IF i > Len(T.got) THEN "argument_missing"
  ELSE IF i > Len(T.want) THEN "argument_extra"
  ELSE IF Len(T.got[i]) # Len(T.want[i]) THEN "argument_split_or_merged"
  ELSE IF T.got[i] # T.want[i] THEN "argument_content"
  ELSE "ok"
TInit == tid \in 1..Len(Traces) /\ k = 1 /\ verdict = "run"
Last == Max(1, Max(Len(T.got), Len(T.want)))
Step == /\ verdict = "run" /\ k <= Last
        /\ LET c == Clause(k) IN
             /\ verdict' = IF c = "ok" \/ (k > Max(Len(T.got), Len(T.want)) /\ T.ok /\ T.func = T.wfunc /\ T.after = "ok") THEN "run" ELSE c
             /\ k' = IF verdict' = "run" THEN k + 1 ELSE k
        /\ tid' = tid
Finish == verdict = "run" /\ k > Last /\ verdict' = "ok" /\ UNCHANGED <<tid, k>>
TNext == Step \/ Finish
TVerdict == (verdict # "run") => CSVWrite("%1$s %2$s %3$s", <<T.id, verdict, k>>, IOEnv.VERDICT_FILE)
=============================================================================
