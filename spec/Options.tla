------------------------------ MODULE Options ------------------------------
(***************************************************************************)
(* C15 -- options only do what they say.                                   *)
(*                                                                         *)
(* The gate table: which minimal py_version a program needs, by the        *)
(* version-gated syntax it uses (except* -> (3,11); type parameter lists   *)
(* and type statements -> (3,12)).  Need[p] is given per program as the    *)
(* maximum over the features it uses (0 = ungated), as a minor version.    *)
(* The option grid: verbose in {FALSE, TRUE} x py_version in {None = 0,    *)
(* (3,8) .. (3,13)}.  The model's prediction for a grid point:             *)
(*    "same"  -- identical to the default result (verbose is inert; any    *)
(*               version at or above the need, and the default, change     *)
(*               nothing; the running interpreter caps the version)        *)
(*    "gate"  -- a SyntaxError naming (3, Need[p])                         *)
(*    "rejected" -- (program invalid anyway, gated syntax inside) still an *)
(*               error, of either kind                                     *)
(* TLC enumerates program x verbose x version and exports the prediction.  *)
(***************************************************************************)
EXTENDS Naturals, Sequences, TLC, Json, CSV, IOUtils
CONSTANTS Need,        \* sequence over 0 | 11 | 12, one entry per program
          Valid,       \* sequence of BOOLEAN: the program is accepted under the defaults
          Running      \* minor version of the running interpreter (12)
Versions == {0, 8, 9, 10, 11, 12, 13}
Min(a, b) == IF a < b THEN a ELSE b
Effective(v) == IF v = 0 THEN Running ELSE Min(v, Running)
\* a program that is rejected anyway but contains gated syntax may be rejected for either reason below its need
Predict(p, v) == IF Need[p] = 0 \/ Effective(v) >= Need[p] THEN "same"
                 ELSE IF Valid[p] THEN "gate" ELSE "rejected"
VARIABLE pt
Init == pt = <<0, FALSE, 0>>
Next == pt[1] = 0 /\ \E p \in 1..Len(Need) : \E vb \in BOOLEAN : \E v \in Versions : pt' = <<p, vb, v>>
Export == pt[1] # 0 => CSVWrite("%1$s", <<ToJson([p |-> pt[1], verbose |-> pt[2], v |-> pt[3], expect |-> Predict(pt[1], pt[3]), need |-> Need[pt[1]]])>>, IOEnv.OUT)
=============================================================================
