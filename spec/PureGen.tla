------------------------------ MODULE PureGen ------------------------------
(***************************************************************************)
(* C13 -- parsing is a pure function.                                      *)
(*                                                                         *)
(* Generator part: Histories (every sequence of up to MaxLen calls over a  *)
(* pool of PoolSize call descriptions) and Schedules (every interleaving   *)
(* of two parses that take N1 and N2 token pulls: a sequence over {1, 2}). *)
(* Trace part: a recorded history is [id, steps, kept]; a step is          *)
(* <<call, got, want>> with want = the outcome digest of the same call in  *)
(* a fresh interpreter; kept = <<digest when returned, digest at the end>> *)
(* for every tree the history kept.  Law: got = want at every step         *)
(* (the outcome depends on the text and options only), and no kept tree    *)
(* changes after it was returned.                                          *)
(***************************************************************************)
EXTENDS Naturals, Sequences, TLC, Json, CSV, IOUtils
CONSTANTS Mode, PoolSize, MaxLen, N1, N2

\* ---- generators ---------------------------------------------------------------------------
VARIABLES h
HInit == h = <<>>
HNext == IF Mode = "history"
         THEN Len(h) < MaxLen /\ \E c \in 1..PoolSize : h' = Append(h, c)
         ELSE \E t \in {1, 2} :
                /\ Len(SelectSeq(h, LAMBDA x : x = t)) < (IF t = 1 THEN N1 ELSE N2)
                /\ h' = Append(h, t)
HExport == IF Mode = "history" THEN (h # <<>> => CSVWrite("%1$s", <<ToJson([calls |-> h])>>, IOEnv.OUT))
           ELSE (Len(h) = N1 + N2 => CSVWrite("%1$s", <<ToJson([sched |-> h])>>, IOEnv.OUT))

=============================================================================
