------------------------------ MODULE Work ------------------------------
(***************************************************************************)
(* C18 -- size-parameterised input families and the linear-growth law.     *)
(*                                                                         *)
(* A family is a term over nesting constructors and chains:                *)
(*   nest(w1, w2, core, n) = w1.pre w2.pre w1.pre ... core ... w2.post ..  *)
(*        (n levels, alternating the two constructors; w1 = w2 allowed)    *)
(*   chain(c, n)           = c.head  c.unit^n  c.tail                      *)
(* each in a valid form and with a breaker at the innermost position / the *)
(* end: unclosed, wrong closer, doubled token, missing operand, trailing   *)
(* garbage (which send the parser into its second, diagnostic pass).       *)
(* TLC enumerates family x breaker x size and exports the program text.    *)
(*                                                                         *)
(* The law (checked on recorded work series by WorkLaw.tla):               *)
(*   work(2n) <= 2 * work(n) * (1 + Eps) + C    for each doubling          *)
(*   work(n) <= K * tokens(n)                                              *)
(***************************************************************************)
EXTENDS Naturals, Sequences, TLC, Json, CSV, IOUtils
CONSTANTS Sizes, WrapUse, ChainUse, BreakUse, Pairs,   \* Pairs: also enumerate w1 # w2
          ChainScale, PatternWraps,  \* chains are ChainScale times longer than nests; wraps that are also patterns
          BlockUse,                  \* block constructors (indentation nesting)
          Prefixes                   \* lengths of the flat statement list put before a family instance (0 = none)

W(id, pre, post) == [id |-> id, pre |-> pre, post |-> post]
Wraps == <<
  W("paren", "(", ")"), W("list", "[", "]"), W("tuple", "(", ",)"), W("call", "f(", ")"), W("subscript", "x[", "]"),           \* 1-5
  W("dict", "{1: ", "}"), W("set", "{", "}"), W("lambda", "lambda: ", ""), W("ternary", "a if b else ", ""), W("listcomp", "[", " for i in y]"), \* 6-10
  W("captured", "$(echo ", ")"), W("object", "!(echo ", ")"), W("uncaptured", "$[echo ", "]"), W("hidden", "![echo ", "]"), W("pyinproc", "$(echo @(", "))"), \* 11-15
  W("unary", "-", ""), W("not", "not ", ""), W("kwarg", "f(k=", ")"), W("starred", "[*", "]"), W("genexp", "sum(", " for i in y)"), \* 16-20
  W("dictcomp", "{i: ", " for i in y}"), W("await", "await ", ""), W("walrus", "(w := ", ")"), W("slice", "x[", ":]"), W("envexpr", "${", "}"), \* 21-25
  W("attrcall", "a.b(", ").c"), W("compcond", "[i for i in y if ", "]"), W("callmacro", "f!(", ")"), W("binparen", "(1 + ", ")"), W("yieldparen", "(yield ", ")"), \* 26-30
  W("pyinhidden", "![a @(", ")]"), W("pyinobject", "!(a @(", "))"), W("injected", "$(a @$(", "))")                                \* 31-33
>>
C(id, head, unit, tail) == [id |-> id, head |-> head, unit |-> unit, tail |-> tail]
Chains == <<
  C("add", "", "a + ", "a\n"), C("compare", "", "a < ", "a\n"), C("and", "", "a and ", "a\n"), C("attr", "a", ".b", "\n"), C("args", "f(", "a, ", ")\n"), \* 1-5
  C("stmts", "", "x = 1\n", ""), C("listelts", "[", "a, ", "]\n"), C("words", "$(echo ", "w ", ")\n"), C("strcat", "s = ", "'s' ", "\n"), C("dictitems", "{", "a: b, ", "}\n"), \* 6-10
  C("elif", "if a:\n    pass\n", "elif b:\n    pass\n", ""), C("imports", "import a", ", b", "\n"), C("calls", "f", "(a)", "\n"), C("subscripts", "x", "[0]", "\n"), C("pow", "", "a ** ", "a\n"), \* 11-15
  C("ornot", "", "not a or ", "b\n"), C("andand", "", "a && ", "b\n"), C("pipe", "$(a ", "| b ", ")\n"), C("semis", "", "x; ", "y\n"), C("kwargs", "f(", "k=a, ", ")\n"), \* 16-20
  C("targets", "", "a = ", "b\n"), C("tupletarget", "", "a, ", "b = c\n"), C("withitems", "with ", "a as b, ", "c: pass\n"), C("decorators", "", "@d\n", "def f(): pass\n"), C("params", "def f(", "p, ", "q): pass\n"), \* 21-25
  C("fstrfields", "f'", "{a}b", "'\n"), C("matchcases", "match x:\n", "    case 1:\n        pass\n", ""), C("orpattern", "match x:\n    case ", "1 | ", "2:\n        pass\n"), C("globalnames", "global a", ", b", "\n"), C("macroargs", "f!(", "a b, ", "c)\n"), \* 26-30
  C("unclosedpath", "x = `", "ab", "\n"), C("unclosedstring", "x = 'a", "\\'b", "\n"), C("comment", "x = 1  #", " c `", "\n")    \* 31-33 one token (or none): time, not token work
>>
\* block constructors: header line, and the lines that close the block at the header's own indentation ("" = none)
B(id, head, post) == [id |-> id, head |-> head, post |-> post]
Blocks == <<
  B("if", "if a:", ""), B("while", "while a:", ""), B("for", "for i in y:", ""), B("def", "def f():", ""), B("class", "class K:", ""),          \* 1-5
  B("with", "with c as d:", ""), B("try", "try:", "finally:"), B("ifelse", "if a:", "else:"), B("tryexcept", "try:", "except E:"),               \* 6-9
  B("asyncdef", "async def g():", ""), B("elifchain", "if a:", "elif b:"), B("withmacro", "with! m:", ""), B("matchcase", "match x:", "")        \* 10-13
>>
\* "later": the instance itself is valid, a LATER statement is rejected (the diagnostic pass then runs over the whole text)
Breakers == <<"valid", "unclosed", "wrong_closer", "doubled", "missing_operand", "trailing", "later">>
Later(br) == IF br = "later" THEN "z = 1 1\n" ELSE ""

RECURSIVE Rep(_, _)
Rep(s, n) == IF n = 0 THEN "" ELSE s \o Rep(s, n - 1)
RECURSIVE NestPre(_, _, _), NestPost(_, _, _)
NestPre(a, b, n) == IF n = 0 THEN "" ELSE a.pre \o NestPre(b, a, n - 1)
NestPost(a, b, n) == IF n = 0 THEN "" ELSE NestPost(b, a, n - 1) \o a.post

Core(br) == CASE br = "doubled" -> "1 1" [] br = "missing_operand" -> "1 +" [] OTHER -> "1"
Swap(ch) == CASE ch = ")" -> "]" [] ch = "]" -> ")" [] ch = "}" -> ")" [] OTHER -> ")"
Hosts == << <<"", "">>, <<"match x:\n    case ", ":\n        pass">> >>     \* expression statement / case pattern
\* binding / deletion targets: the nest is built over a name and placed in a target position
TargetHosts == << <<"del", "del ", "">>, <<"assign", "", " = v">>, <<"for", "for ", " in y: pass">>, <<"withas", "with c as ", ": pass">>,
                  <<"comptarget", "[i for ", " in y]">> >>
TargetWraps == {1, 2, 3}
NestText(a, b, n, br) ==
  LET post == NestPost(a, b, n)
      last == a.post       \* outermost closer
  IN NestPre(a, b, n) \o Core(br)
       \o (IF br = "unclosed" THEN NestPost(b, a, n - 1)                       \* outermost closer dropped
           ELSE IF br = "wrong_closer" THEN NestPost(b, a, n - 1) \o "]]"
           ELSE post)
       \o (IF br = "trailing" THEN " 1" ELSE "") \o "\n" \o Later(br)
\* groups of a subprocess command nested in each other ("(a (a 1))" inside "![echo ...]"): plain text for the parser, but
\* the brackets have to match; "unclosed" = no group is closed before the command's own closer
SubGroups == << W("cmdgroup", "(a ", ")"), W("cmdgroupsq", "[a ", "]"), W("cmdgroupbr", "{a ", "}") >>
SubText(g, n, br) ==
  "![echo " \o NestPre(g, g, n) \o Core(br) \o (IF br = "unclosed" THEN " " ELSE NestPost(g, g, n))
    \o (IF br = "wrong_closer" THEN ")" ELSE "]") \o (IF br = "trailing" THEN " 1" ELSE "") \o "\n" \o Later(br)
ChainText(c, n, br) ==
  c.head \o Rep(c.unit, n)
    \o (IF br = "doubled" THEN c.unit \o c.unit ELSE "")
    \o (IF br = "unclosed" /\ c.tail # "" THEN "(\n" ELSE IF br = "missing_operand" THEN "+ \n" ELSE IF br = "wrong_closer" THEN "]\n" ELSE c.tail)
    \o (IF br = "trailing" THEN "1 1\n" ELSE "") \o Later(br)

\* n nested blocks; the innermost body is the core statement; blocks with a closing clause get "<post>\n<indent>pass"
RECURSIVE BlockOpen(_, _, _), BlockClose(_, _, _)
Ind(i) == Rep("    ", i)
BlockOpen(b, i, n) == IF i = n THEN "" ELSE Ind(i) \o b.head \o "\n" \o BlockOpen(b, i + 1, n)
BlockClose(b, i, n) == IF i = n \/ b.post = "" THEN "" ELSE BlockClose(b, i + 1, n) \o Ind(i) \o b.post \o "\n" \o Ind(i + 1) \o "pass\n"
BlockCore(br) == CASE br = "doubled" -> "1 1" [] br = "missing_operand" -> "1 +" [] br = "unclosed" -> "(1" [] br = "wrong_closer" -> "1]" [] OTHER -> "z = 1"
BlockText(b, n, br) ==
  BlockOpen(b, 0, n) \o Ind(n) \o BlockCore(br) \o "\n" \o BlockClose(b, 0, n) \o (IF br = "trailing" THEN "1 1\n" ELSE "") \o Later(br)
\* match statements nest through their case bodies: two lines per level
RECURSIVE MatchOpen(_, _)
MatchOpen(i, n) == IF i = n THEN "" ELSE Ind(2 * i) \o "match x:\n" \o Ind(2 * i + 1) \o "case 1:\n" \o MatchOpen(i + 1, n)
MatchText(n, br) == MatchOpen(0, n) \o Ind(2 * n) \o BlockCore(br) \o "\n" \o (IF br = "trailing" THEN "1 1\n" ELSE "") \o Later(br)
FamText(b, n, br) == IF b.id = "matchcase" THEN MatchText(n, br) ELSE BlockText(b, n, br)
RECURSIVE RepFast(_, _)
RepFast(s, n) == IF n = 0 THEN "" ELSE IF n % 2 = 0 THEN LET h == RepFast(s, n \div 2) IN h \o h ELSE s \o RepFast(s, n - 1)
Flat(p) == RepFast("x = 1\n", p)

VARIABLE pick
Init == pick = [k |-> "none"]
Next == /\ pick.k = "none"
        /\ \/ \E a \in WrapUse : \E b \in (IF Pairs THEN WrapUse ELSE {a}) : \E br \in BreakUse : \E n \in Sizes :
                \/ pick' = [k |-> "nest", fam |-> Wraps[a].id \o "/" \o Wraps[b].id, br |-> Breakers[br], n |-> n,
                            src |-> NestText(Wraps[a], Wraps[b], n, Breakers[br])]
                \/ /\ a \in PatternWraps /\ b \in PatternWraps
                   /\ pick' = [k |-> "nest", fam |-> "pattern:" \o Wraps[a].id \o "/" \o Wraps[b].id, br |-> Breakers[br], n |-> n,
                               src |-> Hosts[2][1] \o NestPre(Wraps[a], Wraps[b], n) \o Core(Breakers[br]) \o NestPost(Wraps[a], Wraps[b], n)
                                         \o (IF Breakers[br] = "trailing" THEN " 1" ELSE "") \o Hosts[2][2] \o "\n" \o Later(Breakers[br])]
           \/ \E h \in 1..Len(TargetHosts) : \E a \in TargetWraps : \E b \in TargetWraps : \E br \in (BreakUse \cap {1, 6}) : \E n \in Sizes :
                /\ (Pairs \/ a = b) /\ PatternWraps # {}
                /\ pick' = [k |-> "nest", fam |-> "target:" \o TargetHosts[h][1] \o ":" \o Wraps[a].id \o "/" \o Wraps[b].id, br |-> Breakers[br], n |-> n,
                            src |-> TargetHosts[h][2] \o NestPre(Wraps[a], Wraps[b], n) \o "a" \o NestPost(Wraps[a], Wraps[b], n)
                                      \o (IF Breakers[br] = "trailing" THEN " 1" ELSE "") \o TargetHosts[h][3] \o "\n"]
           \/ \E b \in BlockUse : \E br \in BreakUse : \E n \in Sizes : \E p \in Prefixes :
                /\ (p > 0 => Breakers[br] \in {"valid", "missing_operand"})
                /\ pick' = [k |-> "block", fam |-> (IF p > 0 THEN "after-flat-prefix:" ELSE "") \o Blocks[b].id, br |-> Breakers[br], n |-> n,
                            src |-> Flat(p) \o FamText(Blocks[b], n, Breakers[br])]
           \/ \E a \in WrapUse \cap {1, 2, 4, 6, 8, 11} : \E n \in Sizes : \E p \in Prefixes \ {0} :
                pick' = [k |-> "nest", fam |-> "after-flat-prefix:" \o Wraps[a].id, br |-> "valid", n |-> n,
                         src |-> Flat(p) \o NestText(Wraps[a], Wraps[a], n, "valid")]
           \/ \E g \in 1..Len(SubGroups) : \E br \in BreakUse : \E n \in Sizes :
                /\ 11 \in WrapUse
                /\ pick' = [k |-> "nest", fam |-> "sub:" \o SubGroups[g].id \o "/" \o SubGroups[g].id, br |-> Breakers[br], n |-> n,
                            src |-> SubText(SubGroups[g], n, Breakers[br])]
           \/ \E c \in ChainUse : \E br \in BreakUse : \E n \in Sizes :
                pick' = [k |-> "chain", fam |-> Chains[c].id, br |-> Breakers[br], n |-> n, src |-> ChainText(Chains[c], n * ChainScale, Breakers[br])]
Export == pick.k # "none" => CSVWrite("%1$s", <<ToJson(pick)>>, IOEnv.OUT)
=============================================================================
