------------------------------ MODULE Subproc ------------------------------
(***************************************************************************)
(* C06 -- subprocess arguments follow source word boundaries.              *)
(*                                                                         *)
(* A command line inside one of the four bracket forms is a sequence of    *)
(* <<piece, gap>>: the piece's source text followed by the whitespace that *)
(* separates it from the next piece ("" = written adjacently).  The        *)
(* independent word-splitting model: pieces joined by empty gaps form one  *)
(* argument, any non-empty gap separates arguments, order is preserved.    *)
(* Words and quoted strings are passed verbatim (adjacent ones concatenate *)
(* into one string constant); $NAME is an environment lookup, @(e) a       *)
(* starred list_of_strs_or_callables call, @$(..) a starred captured-      *)
(* inject call, nested bracket forms nest.  Func(form) is the runtime      *)
(* method of each bracket form.                                            *)
(* Args(cmd) is the expected argument list in the projection the harness   *)
(* applies to the real Call node: one sequence of descriptors per          *)
(* argument -- "w:<text>" (string constant), "e:<NAME>", "p" (@(..)),      *)
(* "i" (@$(..)), "s:<method>" (nested form).                               *)
(***************************************************************************)
EXTENDS Naturals, Sequences, TLC, Json, CSV, IOUtils
CONSTANTS Use,        \* set of piece indices to enumerate over
          Gaps,       \* set of separating gaps between pieces, e.g. {"", " "}
          MaxPieces,
          FormsUsed   \* subset of 1..4

W(t) == [txt |-> t, d |-> "w:" \o t, w |-> TRUE]
S(t, d) == [txt |-> t, d |-> d, w |-> FALSE]
Pieces == <<
  W("ls"), W("-la"), W("--opt=val"), W("1e5x"), W("a.b/c"), W("2>&1"), W(".."), W("->"), W(":="), W("<<="),   \* 1-10
  W("x+y"), W("%d"), W("^~"), W("*"), W("a,b"), W("1"), W("3.14"), W("foo_bar"), W("@"), W("&"),               \* 11-20
  W("|"), W(";"), W("<"), W(">"), W("-"), W("="), W(":"), W(","), W("+"), W("~"),                                \* 21-30
  W("/"), W("."), W("'a b'"), W("\"c,d\""), W("r'e\\f'"), W("0x1F"), W("1_0"), W("e>"), W("&&"), W("||"),       \* 31-40
  W("**"), W("//"), W("=="), W("@="), W("..."), W("7j"), W("_"), W("a-b"), W("o>&2"), W("x=1"),                 \* 41-50
  S("$HOME", "e:HOME"), S("$x1", "e:x1"),                                              \* 51-52
  S("@(x + 1)", "p"), S("@([a, 'b c'])", "p"), S("@(f(y))", "p"),        \* 53-55
  S("@$(which ls)", "i"),                                                                           \* 56
  S("$(echo hi)", "s:subproc_captured"), S("$[echo hi]", "s:subproc_uncaptured"),     \* 57-58
  S("!(echo hi)", "s:subproc_captured_object"), S("![echo hi]", "s:subproc_captured_hiddenobject"), \* 59-60
  W("caf~u00e9~"),                                                                                                 \* 61
  W("~ufb01~le.txt"), W("10~u00b5~s"), W("~uff21~~uff22~~uff43~"), S("$~ufb01~le", "e:~ufb01~le")                                                       \* 62-65 compatibility characters
>>

Forms == <<
  [open |-> "$(", close |-> ")", func |-> "subproc_captured"],
  [open |-> "$[", close |-> "]", func |-> "subproc_uncaptured"],
  [open |-> "!(", close |-> ")", func |-> "subproc_captured_object"],
  [open |-> "![", close |-> "]", func |-> "subproc_captured_hiddenobject"]
>>
Func(f) == Forms[f].func

\* ---- the word-splitting model ------------------------------------------------------------
RECURSIVE Split(_, _, _)
\* cmd: Seq(<<piece index, gap>>); cur: descriptors of the argument being built; acc: finished arguments
Split(cmd, cur, acc) ==
  IF cmd = <<>> THEN (IF cur = <<>> THEN acc ELSE Append(acc, cur))
  ELSE LET p == Pieces[Head(cmd)[1]]   g == Head(cmd)[2]
           \* adjacent string constants concatenate into one constant
           cur2 == IF cur # <<>> /\ cur[Len(cur)].w /\ p.w
                   THEN Append(SubSeq(cur, 1, Len(cur) - 1), [d |-> cur[Len(cur)].d \o p.txt, w |-> TRUE])
                   ELSE Append(cur, [d |-> p.d, w |-> p.w])
       IN IF g = "" THEN Split(Tail(cmd), cur2, acc) ELSE Split(Tail(cmd), <<>>, Append(acc, cur2))
Descs(arg) == [i \in 1..Len(arg) |-> arg[i].d]
Args(cmd) == LET a == Split(cmd, <<>>, <<>>) IN [i \in 1..Len(a) |-> Descs(a[i])]

RECURSIVE Text(_)
Text(cmd) == IF cmd = <<>> THEN "" ELSE Pieces[Head(cmd)[1]].txt \o Head(cmd)[2] \o Text(Tail(cmd))

\* ---- which pieces may be written adjacently without becoming a different lexeme -----------
EnvPieces == {51, 52, 65}
StartsWordChar == {1, 4, 5, 6, 11, 15, 16, 17, 18, 35, 36, 37, 38, 46, 47, 48, 49, 50, 61, 62, 63, 64}
EndsAt == {19}                      \* "@" directly before "$(" would read as the inject operator "@$("
StartsDollarParen == {57}
Compatible(i, j) ==
  /\ ~(i \in EnvPieces /\ j \in StartsWordChar)      \* $HOMEx is the variable HOMEx
  /\ ~(i \in EndsAt /\ j \in StartsDollarParen)

\* ---- generator -----------------------------------------------------------------------------
VARIABLES cmd, form, lead
vars == <<cmd, form, lead>>
Init == cmd = <<>> /\ form \in FormsUsed /\ lead \in {"", " "}
Grow == /\ Len(cmd) < MaxPieces
        /\ \E i \in Use : \E g \in Gaps :
             /\ (cmd # <<>> /\ cmd[Len(cmd)][2] = "") => Compatible(cmd[Len(cmd)][1], i)
             /\ cmd' = Append(cmd, <<i, g>>)
        /\ UNCHANGED <<form, lead>>
Next == Grow
Case == [src |-> Forms[form].open \o lead \o Text(cmd) \o Forms[form].close,
         func |-> Func(form), args |-> Args(cmd), n |-> Len(cmd)]
Export == cmd # <<>> => CSVWrite("%1$s", <<ToJson(Case)>>, IOEnv.OUT)
=============================================================================
