------------------------------ MODULE OptTrace ------------------------------
(***************************************************************************)
(* C15 trace validation: a trace is [id, base, pts] for one program;       *)
(* base = outcome digest under the defaults, pts = sequence of             *)
(* [expect, d, gate_ok]: the model's prediction (Options!Predict), the     *)
(* observed digest, and whether the observed outcome is a SyntaxError      *)
(* naming the required version (only consulted when expect = "gate").      *)
(***************************************************************************)
EXTENDS Naturals, Sequences, TLC, Json, CSV, IOUtils
Traces == ndJsonDeserialize(IOEnv.TRACE_FILE)
VARIABLES tid, k, verdict
T == Traces[tid]
Clause(p) == IF p.expect = "same" /\ p.d # T.base THEN (IF p.verbose THEN "verbose_changes_result" ELSE "py_version_changes_ungated_result")
             ELSE IF p.expect = "gate" /\ ~p.gate_ok THEN "gated_syntax_not_rejected_with_required_version"
             ELSE IF p.expect = "rejected" /\ ~p.is_exc THEN "lower_py_version_turns_rejection_into_acceptance"
             ELSE "ok"
TInit == tid \in 1..Len(Traces) /\ k = 1 /\ verdict = "run"
Step == /\ verdict = "run" /\ k <= Len(T.pts)
        /\ LET c == Clause(T.pts[k]) IN
             /\ verdict' = IF c = "ok" THEN "run" ELSE c
             /\ k' = IF c = "ok" THEN k + 1 ELSE k
        /\ tid' = tid
Finish == verdict = "run" /\ k > Len(T.pts) /\ verdict' = "ok" /\ UNCHANGED <<tid, k>>
TNext == Step \/ Finish
TVerdict == (verdict # "run") => CSVWrite("%1$s %2$s %3$s", <<T.id, verdict, k>>, IOEnv.VERDICT_FILE)
=============================================================================
