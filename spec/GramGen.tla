------------------------------ MODULE GramGen ------------------------------
(***************************************************************************)
(* Sentence generator for a PEG grammar given as data (see harness/gram.py *)
(* for the translation of tasks/xonsh.gram; spec/gen/RefGram.tla is the    *)
(* pinned baseline grammar, out/WtGram.tla the working-tree one).          *)
(*                                                                         *)
(* State = a sentential form: `pend` (items still to expand, leftmost      *)
(* first) and `out` (terminals emitted so far).  Expand replaces the       *)
(* leftmost pending item: a rule by any of its alternatives, an optional   *)
(* by nothing or its body, a repetition by zero or more copies, a gather   *)
(* by one or more separated copies.  Lookaheads and cuts contribute        *)
(* nothing: the generated set OVER-approximates the PEG language (ordered  *)
(* choice is treated as plain choice), which is what C02 needs -- CPython  *)
(* says which sentences are valid.  `used` records the <<rule, alt>> pairs *)
(* of the derivation (history, hidden from the fingerprint by View).       *)
(* Rules whose minimal length is >= Inf (invalid_* diagnostics, banned     *)
(* terminals) are never entered.                                           *)
(***************************************************************************)
EXTENDS Naturals, Sequences, FiniteSets, TLC, Json, CSV, IOUtils
CONSTANTS Rules,      \* record: rule name -> Seq(alternative), alternative = Seq([k, v, s])
          MinLen,     \* record: rule name -> minimal number of terminals (Inf = unusable)
          Banned,     \* terminals that must not be emitted in this configuration
          Collapse,   \* record: rule name -> macro-terminal emitted instead of expanding it
          Start,      \* start rule
          MaxTok,     \* bound on sentence length
          Inf

VARIABLES pend, out, used
vars == <<pend, out, used>>
View == <<pend, out>>

Rule(r) == [k |-> "rule", v |-> r, s |-> ""]

ICost(it) ==
  CASE it.k \in {"tok", "lit"} -> IF it.v \in Banned THEN Inf ELSE 1
    [] it.k \in {"rule", "plus", "forced", "gather"} -> MinLen[it.v]
    [] OTHER -> 0          \* opt, star, gstar, pos, neg, cut

RECURSIVE SeqCost(_)
SeqCost(sq) == IF sq = <<>> THEN 0 ELSE ICost(Head(sq)) + SeqCost(Tail(sq))

Fits(p, o) == Len(o) + SeqCost(p) <= MaxTok

Init == pend = <<Rule(Start)>> /\ out = <<>> /\ used = {}

Expand ==
  /\ pend # <<>>
  /\ LET it == Head(pend)  rest == Tail(pend) IN
     \/ /\ it.k \in {"tok", "lit"}
        /\ it.v \notin Banned
        /\ out' = Append(out, it.v) /\ pend' = rest /\ used' = used
     \/ /\ it.k \in {"rule", "forced"} /\ it.v \in DOMAIN Collapse
        /\ out' = Append(out, Collapse[it.v]) /\ pend' = rest /\ used' = used
     \/ /\ it.k \in {"rule", "forced"} /\ it.v \notin DOMAIN Collapse
        /\ \E a \in 1..Len(Rules[it.v]) :
             /\ pend' = Rules[it.v][a] \o rest
             /\ used' = used \cup {<<it.v, a>>}
        /\ out' = out
     \/ /\ it.k = "opt"
        /\ (pend' = rest \/ pend' = <<Rule(it.v)>> \o rest)
        /\ UNCHANGED <<out, used>>
     \/ /\ it.k = "star"
        /\ (pend' = rest \/ pend' = <<Rule(it.v), it>> \o rest)
        /\ UNCHANGED <<out, used>>
     \/ /\ it.k = "plus"
        /\ pend' = <<Rule(it.v), [k |-> "star", v |-> it.v, s |-> ""]>> \o rest
        /\ UNCHANGED <<out, used>>
     \/ /\ it.k = "gather"
        /\ pend' = <<Rule(it.v), [k |-> "gstar", v |-> it.v, s |-> it.s]>> \o rest
        /\ UNCHANGED <<out, used>>
     \/ /\ it.k = "gstar"
        /\ (pend' = rest \/ pend' = <<Rule(it.s), Rule(it.v), it>> \o rest)
        /\ UNCHANGED <<out, used>>
     \/ /\ it.k \in {"pos", "neg", "cut"}
        /\ pend' = rest /\ UNCHANGED <<out, used>>
  /\ Fits(pend', out')

Next == Expand

Export == pend = <<>> => CSVWrite("%1$s", <<ToJson([sent |-> out, used |-> used])>>, IOEnv.OUT)
Spec == Init /\ [][Next]_vars
=============================================================================
