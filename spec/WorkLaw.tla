------------------------------ MODULE WorkLaw ------------------------------
(***************************************************************************)
(* C18 trace validation: a trace is the recorded work series of one input  *)
(* family, [id, pts] with pts = sequence of <<n, tokens, work>> for        *)
(* doubling sizes; work = number of Tokenizer.getnext / peek / reset calls *)
(* made by the parse.  Law: each doubling at most doubles the work, up to  *)
(* the head-room Eps (in percent) and the constant C; and the work per     *)
(* token stays below K.                                                    *)
(***************************************************************************)
EXTENDS Naturals, Sequences, TLC, Json, CSV, IOUtils
CONSTANTS EpsPct, C, K
Traces == ndJsonDeserialize(IOEnv.TRACE_FILE)
VARIABLES tid, k, verdict
T == Traces[tid]
Clause(i) ==
  LET p == T.pts[i] IN
  IF p[3] > K * p[2] THEN "work_per_token_exceeds_bound"
  \* (32-bit arithmetic: the harness clamps recorded work at 5 * 10^8, so 2.6 * work stays representable)
  ELSE IF i > 1 /\ p[3] > 2 * T.pts[i - 1][3] + ((2 * T.pts[i - 1][3]) \div 100) * EpsPct + C THEN "doubling_the_size_more_than_doubles_the_work"
  ELSE "ok"
TInit == tid \in 1..Len(Traces) /\ k = 1 /\ verdict = "run"
Step == /\ verdict = "run" /\ k <= Len(T.pts)
        /\ LET c == Clause(k) IN
             /\ verdict' = IF c = "ok" THEN "run" ELSE c
             /\ k' = IF c = "ok" THEN k + 1 ELSE k
        /\ tid' = tid
Finish == verdict = "run" /\ k > Len(T.pts) /\ verdict' = "ok" /\ UNCHANGED <<tid, k>>
TNext == Step \/ Finish
TVerdict == (verdict # "run") => CSVWrite("%1$s %2$s %3$s", <<T.id, verdict, k>>, IOEnv.VERDICT_FILE)
=============================================================================
