------------------------------ MODULE Xonsh ------------------------------
(***************************************************************************)
(* C05 -- the xonsh expression sugar and its documented translation onto   *)
(* the __xonsh__ runtime object, the expression contexts it may appear in, *)
(* and the generator of (context, construct) cases.                        *)
(*                                                                         *)
(* A construct is [id, x, t, bind, span]: x = xonsh text, t = its pure     *)
(* Python translation (the table of tests/data/exprs is the documentation  *)
(* it is taken from), bind = usable as a binding target, span = the node   *)
(* standing for it must span exactly x.                                    *)
(* A context is [id, xa, xb, ta, tb, mode, kind]: text before / after the  *)
(* hole in the xonsh program (xa, xb) and in the written-out program       *)
(* (ta, tb); for pure Python contexts they coincide, for a xonsh construct *)
(* with an expression inside (${..}, @(..)) they differ.  kind = "expr"    *)
(* (the whole text is an expression, so it can itself fill a hole),        *)
(* "stmt", or "bind" (hole in a binding position).                         *)
(* TLC enumerates: ctx x construct, ctx x exprctx x construct (depth 2),   *)
(* bindctx x binding construct.  Holes are never inside assignment /       *)
(* augmented assignment / annotation / del targets nor right after a       *)
(* decorator's '@' (the property excludes those).                          *)
(***************************************************************************)
EXTENDS Naturals, Sequences, TLC, Json, CSV, IOUtils
CONSTANT Depth2      \* BOOLEAN: also enumerate context-in-context cases

C(id, x, t, bind, span) == [id |-> id, x |-> x, t |-> t, bind |-> bind, span |-> span]
Constructs == <<
  C("env",        "$HOME",            "__xonsh__.env['HOME']", TRUE, TRUE),
  C("env_",       "$_x9",             "__xonsh__.env['_x9']", TRUE, TRUE),
  C("envexpr",    "${'HO' + 'ME'}",   "__xonsh__.env[str('HO' + 'ME')]", TRUE, TRUE),
  C("envexprname","${name}",          "__xonsh__.env[str(name)]", TRUE, TRUE),
  C("captured",   "$(ls -l)",         "__xonsh__.subproc_captured('ls', '-l')", FALSE, TRUE),
  C("uncaptured", "$[ls -l]",         "__xonsh__.subproc_uncaptured('ls', '-l')", FALSE, TRUE),
  C("capobj",     "!(ls -l)",         "__xonsh__.subproc_captured_object('ls', '-l')", FALSE, TRUE),
  C("hidden",     "![ls -l]",         "__xonsh__.subproc_captured_hiddenobject('ls', '-l')", FALSE, TRUE),
  C("captured1",  "$(pwd)",           "__xonsh__.subproc_captured('pwd')", FALSE, TRUE),
  C("search",     "`a.*b`",           "__xonsh__.pathsearch('`a.*b`')", FALSE, TRUE),
  C("gsearch",    "g`*.txt`",         "__xonsh__.pathsearch('g`*.txt`')", FALSE, TRUE),
  C("rsearch",    "r`x+`",            "__xonsh__.pathsearch('r`x+`')", FALSE, TRUE),
  C("fnsearch",   "@foo`x`",          "__xonsh__.pathsearch('@foo`x`')", FALSE, TRUE),
  C("path",       "p'/tmp'",          "__xonsh__.path_literal('/tmp')", FALSE, TRUE),
  C("pathP",      "P'/tmp'",          "__xonsh__.path_literal('/tmp')", FALSE, TRUE),
  C("pathr",      "pr'/a'",           "__xonsh__.path_literal(r'/a')", FALSE, TRUE),
  C("pathrp",     "Rp'/a'",           "__xonsh__.path_literal(R'/a')", FALSE, TRUE),
  C("pathf",      "pf'/t{q}'",        "__xonsh__.path_literal(f'/t{q}')", FALSE, TRUE),
  C("pathfp",     "fP'/t{q}'",        "__xonsh__.path_literal(f'/t{q}')", FALSE, TRUE),
  C("pathcat",    "p'/a' pf'/{q}'",   "__xonsh__.path_literal('/a' f'/{q}')", FALSE, TRUE),
  C("pathcat2",   "pf'/{q}' 'x'",     "__xonsh__.path_literal(f'/{q}' 'x')", FALSE, TRUE),
  C("help",       "range?",           "__xonsh__.help(range)", FALSE, FALSE),
  C("superhelp",  "range??",          "__xonsh__.superhelp(range)", FALSE, FALSE),
  C("helpchain",  "range?.index?",    "__xonsh__.help(__xonsh__.help(range).index)", FALSE, FALSE),
  C("andand",     "a && b",           "a and b", FALSE, FALSE),
  C("oror",       "a || b",           "a or b", FALSE, FALSE),
  C("andor",      "a && b || c and d","a and b or c and d", FALSE, FALSE),
  C("orand",      "a or b && c || d", "a or b and c or d", FALSE, FALSE),
  C("notand",     "not a && b",       "not a and b", FALSE, FALSE),
  \* a subprocess spread over two lines: the second word starts in the column where the first one ended for some contexts
  C("capml0",     "$(ls\n-l)",                "__xonsh__.subproc_captured('ls', '-l')", FALSE, TRUE),
  C("capml4",     "$(ls\n    -l)",            "__xonsh__.subproc_captured('ls', '-l')", FALSE, TRUE),
  C("capml5",     "$(ls\n     -l)",           "__xonsh__.subproc_captured('ls', '-l')", FALSE, TRUE),
  C("capml6",     "$(ls\n      -l)",          "__xonsh__.subproc_captured('ls', '-l')", FALSE, TRUE),
  C("capml8",     "$(ls\n        -l)",        "__xonsh__.subproc_captured('ls', '-l')", FALSE, TRUE),
  C("capml9",     "$(ls\n         -l)",       "__xonsh__.subproc_captured('ls', '-l')", FALSE, TRUE),
  C("hidml",      "![ls -l\n      x]",        "__xonsh__.subproc_captured_hiddenobject('ls', '-l', 'x')", FALSE, TRUE),
  C("capcont",    "$(ls \\\n   -l)",          "__xonsh__.subproc_captured('ls', '-l')", FALSE, TRUE),
  C("envcompat",  "$~ufb01~le",                "__xonsh__.env['~ufb01~le']", TRUE, TRUE),
  C("capcompat",  "$(cat ~ufb01~le.txt ~u00b5~s)", "__xonsh__.subproc_captured('cat', '~ufb01~le.txt', '~u00b5~s')", FALSE, TRUE),
  C("envexprf",   "${f'{p}_HOME'}",            "__xonsh__.env[str(f'{p}_HOME')]", TRUE, TRUE)
>>

\* pure Python context: same text on both sides
P(id, a, b, mode, kind) == [id |-> id, xa |-> a, xb |-> b, ta |-> a, tb |-> b, mode |-> mode, kind |-> kind]
X(id, xa, xb, ta, tb) == [id |-> id, xa |-> xa, xb |-> xb, ta |-> ta, tb |-> tb, mode |-> "eval", kind |-> "expr"]

Contexts == <<
  P("bare", "", "", "eval", "expr"),
  P("paren", "(", ")", "eval", "expr"),
  P("callarg", "f(", ")", "eval", "expr"),
  P("callarg2", "f(1, ", ", k=2)", "eval", "expr"),
  P("kwvalue", "f(k=", ")", "eval", "expr"),
  P("callthenstr", "open(", ", 'r')", "eval", "expr"),
  P("listthenstr", "[", ", 's', \"t\"]", "eval", "expr"),
  P("strbefore", "('s', ", ")", "eval", "expr"),
  P("stararg", "f(*", ")", "eval", "expr"),
  P("dstararg", "f(**", ")", "eval", "expr"),
  P("nestedcall", "g(h(", "))", "eval", "expr"),
  P("index", "x[", "]", "eval", "expr"),
  P("indexed", "", "[0]", "eval", "expr"),
  P("slicelo", "x[", ":]", "eval", "expr"),
  P("slicehi", "x[:", "]", "eval", "expr"),
  P("slicestep", "x[::", "]", "eval", "expr"),
  P("tupleindex", "x[1, ", "]", "eval", "expr"),
  P("attrbase", "", ".attr", "eval", "expr"),
  P("called", "", "(1)", "eval", "expr"),
  P("methcall", "", ".m(2)[3]", "eval", "expr"),
  P("binl", "", " + 1", "eval", "expr"),
  P("binr", "1 + ", "", "eval", "expr"),
  P("powl", "", " ** 2", "eval", "expr"),
  P("powr", "2 ** ", "", "eval", "expr"),
  P("matmul", "m @ ", "", "eval", "expr"),
  P("unary", "-", "", "eval", "expr"),
  P("invert", "~", "", "eval", "expr"),
  P("not", "not ", "", "eval", "expr"),
  P("cmpl", "", " < 1", "eval", "expr"),
  P("cmpr", "1 < ", "", "eval", "expr"),
  P("cmpchain", "0 < ", " <= 9", "eval", "expr"),
  P("in", "1 in ", "", "eval", "expr"),
  P("isnot", "", " is not None", "eval", "expr"),
  P("andl", "", " and z", "eval", "expr"),
  P("orr", "z or ", "", "eval", "expr"),
  P("ternbody", "", " if c else d", "eval", "expr"),
  P("terntest", "b if ", " else d", "eval", "expr"),
  P("ternelse", "b if c else ", "", "eval", "expr"),
  P("lambdabody", "lambda: ", "", "eval", "expr"),
  P("lambdadefault", "lambda q=", ": q", "eval", "expr"),
  P("listelt", "[", ", 1]", "eval", "expr"),
  P("liststar", "[*", "]", "eval", "expr"),
  P("tupleelt", "(1, ", ")", "eval", "expr"),
  P("setelt", "{", "}", "eval", "expr"),
  P("dictkey", "{", ": 1}", "eval", "expr"),
  P("dictval", "{1: ", "}", "eval", "expr"),
  P("dictstar", "{**", "}", "eval", "expr"),
  P("compelt", "[", " for i in y]", "eval", "expr"),
  P("compiter", "[i for i in ", "]", "eval", "expr"),
  P("compcond", "[i for i in y if ", "]", "eval", "expr"),
  P("genexp", "sum(", " for i in y)", "eval", "expr"),
  P("dictcompval", "{i: ", " for i in y}", "eval", "expr"),
  P("walrus", "(w := ", ")", "eval", "expr"),
  P("await", "await ", "", "eval", "expr"),
  P("strconcat", "'s' + ", "", "eval", "expr"),
  P("fstrfield", "f'{ ", " }'", "eval", "expr"),
  P("fstrfield2", "f'a{ ", " !r:>4}b'", "eval", "expr"),
  \* something with a backtick / a dollar / a bang later on the same line
  X("thensearch", "f(", ", `z*`)", "f(", ", __xonsh__.pathsearch('`z*`'))"),
  X("searchthen", "[`y`, ", "]", "[__xonsh__.pathsearch('`y`'), ", "]"),
  P("thenbtstr", "g(", ", 'a`b', \"$c\")", "eval", "expr"),
  P("thenbtcomment", "(", ")  # `c` $(d) !e", "eval", "expr"),
  X("thenenv", "(", ", $X, ${'Y'})", "(", ", __xonsh__.env['X'], __xonsh__.env[str('Y')])"),
  X("envexprinner", "${", "}", "__xonsh__.env[str(", ")]"),
  X("pyinproc", "$(echo @(", "))", "__xonsh__.subproc_captured('echo', *__xonsh__.list_of_strs_or_callables(", "))"),
  X("pyinproc2", "![echo a @(", ") b]", "__xonsh__.subproc_captured_hiddenobject('echo', 'a', *__xonsh__.list_of_strs_or_callables(", "), 'b')"),
  P("exprstmt", "", "\n", "exec", "stmt"),
  P("assignrhs", "w = ", "\n", "exec", "stmt"),
  P("chainrhs", "w = v = ", "\n", "exec", "stmt"),
  P("augrhs", "w += ", "\n", "exec", "stmt"),
  P("annrhs", "w: int = ", "\n", "exec", "stmt"),
  P("subscrrhs", "w[0] = ", "\n", "exec", "stmt"),
  P("return", "def g():\n    return ", "\n", "exec", "stmt"),
  P("yield", "def g():\n    yield ", "\n", "exec", "stmt"),
  P("yieldfrom", "def g():\n    yield from ", "\n", "exec", "stmt"),
  P("assert", "assert ", "\n", "exec", "stmt"),
  P("assertmsg", "assert x, ", "\n", "exec", "stmt"),
  P("raise", "raise ", "\n", "exec", "stmt"),
  P("raisefrom", "raise E from ", "\n", "exec", "stmt"),
  P("ifcond", "if ", ":\n    pass\n", "exec", "stmt"),
  P("elifcond", "if x:\n    pass\nelif ", ":\n    pass\n", "exec", "stmt"),
  P("whilecond", "while ", ":\n    break\n", "exec", "stmt"),
  P("withctx", "with ", ":\n    pass\n", "exec", "stmt"),
  P("withas", "with ", " as w:\n    pass\n", "exec", "stmt"),
  P("foriter", "for i in ", ":\n    pass\n", "exec", "stmt"),
  P("decoarg", "@d(", ")\ndef g():\n    pass\n", "exec", "stmt"),
  P("defdefault", "def g(q=", "):\n    pass\n", "exec", "stmt"),
  P("kwdefault", "def g(*, q=", "):\n    pass\n", "exec", "stmt"),
  P("classbase", "class K(", "):\n    pass\n", "exec", "stmt"),
  P("classkw", "class K(metaclass=", "):\n    pass\n", "exec", "stmt"),
  P("matchsubject", "match ", ":\n    case _:\n        pass\n", "exec", "stmt"),
  P("caseguard", "match x:\n    case _ if ", ":\n        pass\n", "exec", "stmt"),
  P("semicolon", "x = 1; ", "; y = 2\n", "exec", "stmt"),
  P("indented", "if x:\n    w = ", "\n    v = 1\n", "exec", "stmt"),
  P("exceptcls", "try:\n    pass\nexcept ", ":\n    pass\n", "exec", "stmt"),
  P("printcall", "print(", ", sep='')\n", "exec", "stmt"),
  P("del_index_is_load", "print(x[", "])\n", "exec", "stmt")
>>

BindContexts == <<
  P("assign", "", " = 1\n", "exec", "bind"),
  P("chain", "a = ", " = 1\n", "exec", "bind"),
  P("chainfirst", "", " = b = 1\n", "exec", "bind"),
  P("tuple", "(", ", b) = 1, 2\n", "exec", "bind"),
  P("baretuple", "a, ", " = 1, 2\n", "exec", "bind"),
  P("list", "[", ", *r] = v\n", "exec", "bind"),
  P("starred", "*", ", b = v\n", "exec", "bind"),
  P("for", "for ", " in y:\n    pass\n", "exec", "bind"),
  P("fortuple", "for i, ", " in y:\n    pass\n", "exec", "bind"),
  P("withas", "with c as ", ":\n    pass\n", "exec", "bind"),
  P("withastuple", "with c as (", ", w):\n    pass\n", "exec", "bind"),
  P("comp", "[i for ", " in y]\n", "exec", "bind"),
  P("genexp", "sum(1 for ", " in y)\n", "exec", "bind"),
  P("asyncfor", "async def g():\n    async for ", " in y:\n        pass\n", "exec", "bind")
>>

VARIABLE case
NoCase == [k |-> "none"]
Mk(kind, c1, c2, con, src, ref, pre) ==
  [k |-> kind, c1 |-> c1, c2 |-> c2, con |-> con.id, mode |-> "", src |-> src, ref |-> ref,
   pre |-> pre, x |-> con.x, span |-> con.span]

Init == case = NoCase
Pick ==
  /\ case = NoCase
  /\ \/ \E i \in 1..Len(Contexts) : \E j \in 1..Len(Constructs) :
          LET c == Contexts[i]  n == Constructs[j] IN
          case' = [Mk("load", c.id, "", n, c.xa \o n.x \o c.xb, c.ta \o n.t \o c.tb, c.xa) EXCEPT !.mode = c.mode]
     \/ /\ Depth2
        /\ \E i \in 1..Len(Contexts) : \E m \in 1..Len(Contexts) : \E j \in 1..Len(Constructs) :
          LET c == Contexts[i]  d == Contexts[m]  n == Constructs[j] IN
          /\ d.kind = "expr" /\ d.id # "bare"
          /\ case' = [Mk("load2", c.id, d.id, n, c.xa \o d.xa \o n.x \o d.xb \o c.xb,
                         c.ta \o d.ta \o n.t \o d.tb \o c.tb, c.xa \o d.xa) EXCEPT !.mode = c.mode]
     \/ \E i \in 1..Len(BindContexts) : \E j \in 1..Len(Constructs) :
          LET c == BindContexts[i]  n == Constructs[j] IN
          /\ n.bind
          /\ case' = [Mk("bind", c.id, "", n, c.xa \o n.x \o c.xb, c.ta \o n.t \o c.tb, c.xa) EXCEPT !.mode = c.mode]
Next == Pick
Export == case.k # "none" => CSVWrite("%1$s", <<ToJson(case)>>, IOEnv.OUT)
=============================================================================
