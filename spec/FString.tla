------------------------------ MODULE FString ------------------------------
(***************************************************************************)
(* C10 -- generator of f-string literals: the product of prefixes, quote   *)
(* styles, literal-part contents and replacement-field forms that the      *)
(* property quantifies over.  An f-string is                               *)
(*     prefix quote item* quote      (optionally next to another literal)  *)
(* item = a literal part (plain, escape, doubled braces, the other quote,  *)
(* non-ASCII, named escape, characters that are special inside fields) or  *)
(* a replacement field (plain, conversions, '=' debug, format spec, nested *)
(* replacement fields in the spec, nested f-string, lambda / dict / walrus *)
(* in parentheses, multi-line field).  CPython 3.12 is the oracle for      *)
(* tokens and tree, so the module only generates; Allowed() keeps items    *)
(* out of quote styles in which they would end the literal.                *)
(***************************************************************************)
EXTENDS Naturals, Sequences, TLC, Json, CSV, IOUtils
CONSTANTS MaxItems, ItemUse, PrefixUse, QuoteUse, Concat

I(t, k) == [txt |-> t, kind |-> k]
Items == <<
  I("a", "lit"), I(" b c ", "lit"), I("\\n", "esc"), I("{{", "lit"), I("}}", "lit"),                         \* 1-5
  I("' ", "sq"), I("\" ", "dq"), I("~u00e9~", "lit"), I("\\N{BULLET}", "esc"), I("%", "lit"),                   \* 6-10
  I(":", "lit"), I("!", "lit"), I("\\\\", "esc"), I("\\{", "esc"), I("#", "lit"),                             \* 11-15
  I("{x}", "fld"), I("{x!r}", "fld"), I("{x!s}", "fld"), I("{x!a}", "fld"), I("{x=}", "fld"),                 \* 16-20
  I("{x = }", "fld"), I("{x:>10}", "fld"), I("{x:{w}}", "fld"), I("{x:{w}.{p}}", "fld"), I("{x!r:^{w}}", "fld"), \* 21-25
  I("{f'{y}'}", "fldsq"), I("{f\"{y}\"}", "flddq"), I("{(lambda: 1)()}", "fld"), I("{ {'k': 1}['k'] }", "fldsq"), I("{(y := 2)}", "fld"), \* 26-30
  I("{x,}", "fld"), I("{x:%Y-%m}", "fld"), I("{x:}", "fld"), I("{x\n}", "fldml"), I("{x:a\nb}", "fldml"),     \* 31-35
  I("{$HOME}", "fld"), I("{x:{w}{p}}", "fld"), I("{x=!r:>5}", "fld"), I("{x.y[0](z)}", "fld"), I("{x if c else d}", "fld"), \* 36-40
  I("{a:=5}", "fld"), I("{x!r:{{}}}", "fld"), I("{'q'}", "fldsq"), I("{x:{'>'}{w}}", "fldsq"), I("{*x,}", "fld"),   \* 41-45
  I("\n", "nl"), I("{x : >4}", "fld"), I("{x!r }", "fld"), I("{ x }", "fld"), I("{x:{y:{z}}}", "fld"),        \* 46-50
  I("{x!sr}", "fld"), I("{x!ra}", "fld"), I("{x!z}", "fld"), I("{x!}", "fld"), I("{x!r!s}", "fld"),            \* 51-55 invalid conversions
  I("{x", "fld"), I("{}", "fld"), I("{x!r:>{w}", "fld"), I("}", "lit"), I("{x:{w}", "fld"),                   \* 56-60 malformed
  I("\"\"\"", "dq"), I("\\\n", "cont"), I("'''", "sq"), I("\\t", "esc"), I("\\x41\\u00e9", "esc"),                  \* 61-65
  I("{x! r}", "fld"), I("\\x4", "esc"), I("\\N{NOPE}", "esc"), I("{!r}", "fld"), I("{:>4}", "fld"),          \* 66-70 invalid unless raw
  I("{x!r x}", "fld"), I("\\u12", "esc"), I("{x!R}", "fld"), I("\\400", "esc"), I("{x;y}", "fld"),            \* 71-75
  I("{x\n\n=}", "fldml"), I("{\n\n x \n\n}", "fldml"), I("{x:{y=}}", "fld"), I("{x\n  =\n !r\n}", "fldml"), I("{(x,\n\n y)=}", "fldml"),  \* 76-80 blank lines inside fields
  I("{f'{y:a\nb}'}", "sqin3dq"), I("{f\"{y:a\nb}\"}", "dqin3sq"), I("{f\"{f'{y}'}\"}", "dqin3sq"), I("{f\"{f'{y:{w}x}'}\"}", "dqin3sq"),                \* 81-84 nested literals
  I("{x:{f'{y:{w}}'}}", "fldsq"), I("{f\"{f'{y}'}\":{w}}", "dqin3sq"), I("{f'{f\"{y!r:{w}}\"}'}", "sqin3dq"),                                             \* 85-87
  I("{x # c\n=}", "fldml"), I("{x:{w}\\N{BULLET}}", "fld"), I("{x:\\N{BULLET}>{w}}", "fld"), I("{\n# a\n x # b\n + y=!r}", "fldml")                      \* 88-91 comments in debug fields, named escapes in specs
>>
Prefixes == <<"f", "F", "rf", "fr", "Rf", "fR", "RF", "Fr">>
Quotes == <<"'", "\"", "'''", "\"\"\"">>
Befores == <<"", "'s' ", "f'{q}' ", "x + ", "'s'\n  ", "u'a' ", "u'a' 'b' ", "b'b' ", "U'c' ", "\"\"\"m\nn\"\"\" ">>
Afters == <<"", " 't'", " f'{r}'", "  # c", "\n 'u'", " b'z'", " rb'y' 'x'">>

Allowed(q, it) ==
  /\ (it.kind \in {"sq", "fldsq"}) => q \in {2, 4}          \* a ' only inside "..." or """..."""
  /\ (it.kind \in {"dq", "flddq"}) => q \in {1, 3}
  /\ (it.kind \in {"fldml", "nl"}) => q \in {3, 4}
  /\ (it.kind = "sqin3dq") => q = 4                          \* holds ' and may hold a newline: only inside """..."""
  /\ (it.kind = "dqin3sq") => q = 3
  /\ (it.kind = "cont") => q \in {1, 2}                      \* backslash-newline continues a single-quoted literal

RECURSIVE Cat(_)
Cat(ss) == IF ss = <<>> THEN "" ELSE Head(ss) \o Cat(Tail(ss))

VARIABLES items, p, q, b, a
Init == items = <<>> /\ p \in PrefixUse /\ q \in QuoteUse /\ b \in (IF Concat THEN 1..Len(Befores) ELSE {1})
        /\ a \in (IF Concat THEN 1..Len(Afters) ELSE {1})
Next == /\ Len(items) < MaxItems
        /\ \E i \in ItemUse : Allowed(q, Items[i]) /\ items' = Append(items, i)
        /\ UNCHANGED <<p, q, b, a>>
Body == Cat([i \in 1..Len(items) |-> Items[items[i]].txt])
\* parenthesised so that the line-crossing concatenations are one expression
Src == "(" \o Befores[b] \o Prefixes[p] \o Quotes[q] \o Body \o Quotes[q] \o Afters[a] \o ")"
Export == CSVWrite("%1$s", <<ToJson([src |-> Src, items |-> items, p |-> p, q |-> q, b |-> b, a |-> a])>>, IOEnv.OUT)
=============================================================================
