------------------------------ MODULE GenPipe ------------------------------
(***************************************************************************)
(* C16 -- shipped generated parsers are exactly what their grammars        *)
(* generate.                                                               *)
(*                                                                         *)
(* Part 1, the generator as a state machine (design level, checked by TLC  *)
(* over small abstract grammars): a to-do queue of rules in insertion      *)
(* order, a helper counter, and a de-duplication cache keyed by the        *)
(* structure of a right-hand side.  Visiting a rule emits one method and   *)
(* may request helpers for its anonymous sub-expressions; a request with a *)
(* structure already in the cache re-uses that helper's name, otherwise a  *)
(* fresh name _tmp_<counter> is queued.  Invariants: OneMethodPerRule,     *)
(* HelperNamesMonotone, DedupIsByStructure, and the run is a function of   *)
(* the grammar alone (no choice in Next depends on anything else), which   *)
(* is what makes RunsAgree hold.                                           *)
(*                                                                         *)
(* Part 2, trace validation of real generation runs: see GenTrace.tla.     *)
(***************************************************************************)
EXTENDS Naturals, Sequences, FiniteSets, TLC
CONSTANTS NRules,       \* user rules 1..NRules
          Shapes,       \* set of abstract right-hand-side structures
          Subs          \* Subs[r]: sequence of shapes requested while visiting rule r (user rules)
                        \* helpers request nothing in this abstraction
VARIABLES todo,         \* sequence of names still to visit; a name is <<"rule", n>> or <<"tmp", n>>
          emitted,      \* sequence of emitted method names, in order
          counter, cache \* cache: shape -> tmp number
vars == <<todo, emitted, counter, cache>>

Init == /\ todo = [i \in 1..NRules |-> <<"rule", i>>]
        /\ emitted = <<>> /\ counter = 0 /\ cache = <<>>   \* empty function

RECURSIVE Request(_, _, _, _)
\* process the shape requests of one rule: returns <<new todo tail, counter, cache>>
Request(shs, q, c, ch) ==
  IF shs = <<>> THEN <<q, c, ch>>
  ELSE LET s == Head(shs) IN
       IF s \in DOMAIN ch THEN Request(Tail(shs), q, c + 1, ch)          \* counter still advances (as in the code)
       ELSE Request(Tail(shs), Append(q, <<"tmp", c + 1>>), c + 1, [x \in DOMAIN ch \cup {s} |-> IF x = s THEN c + 1 ELSE ch[x]])

Visit ==
  /\ todo # <<>>
  /\ LET n == Head(todo)
         shs == IF n[1] = "rule" THEN Subs[n[2]] ELSE <<>>
         r == Request(shs, Tail(todo), counter, cache)
     IN /\ emitted' = Append(emitted, n)
        /\ todo' = r[1] /\ counter' = r[2] /\ cache' = r[3]
Next == Visit

OneMethodPerRule == \A i, j \in 1..Len(emitted) : emitted[i] = emitted[j] => i = j
HelperNamesMonotone ==
  \A i, j \in 1..Len(emitted) : (i < j /\ emitted[i][1] = "tmp" /\ emitted[j][1] = "tmp") => emitted[i][2] < emitted[j][2]
DedupIsByStructure == \A s, t \in DOMAIN cache : cache[s] = cache[t] => s = t
AllRulesEmitted == (todo = <<>>) => \A i \in 1..NRules : \E k \in 1..Len(emitted) : emitted[k] = <<"rule", i>>
Spec == Init /\ [][Next]_vars
=============================================================================
