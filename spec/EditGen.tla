------------------------------ MODULE EditGen ------------------------------
(***************************************************************************)
(* The mutation neighbourhood of a set of seed texts (C03, C02, C11):      *)
(* every proper prefix and every single-position edit (delete, insert,     *)
(* replace by an element of Repl, duplicate, swap with the next position)  *)
(* of every seed.  Positions are characters (C03) or tokens (C02).  Seeds  *)
(* are known to the specification only by their length; the harness        *)
(* applies the edit to the concrete text.  One behaviour = one edit.       *)
(***************************************************************************)
EXTENDS Naturals, Sequences, TLC, Json, CSV, IOUtils
CONSTANTS SeedLens,   \* sequence: length of each seed text
          Repl,       \* set of character classes used for insert / replace
          Ops         \* subset of {"prefix", "del", "ins", "rep"}
VARIABLE e
Init == e = [op |-> "none", seed |-> 0, pos |-> 0, cls |-> ""]
Pick ==
  /\ e.op = "none"
  /\ \E s \in 1..Len(SeedLens) : \E o \in Ops :
       \/ o = "prefix" /\ \E p \in 0..(SeedLens[s] - 1) : e' = [op |-> o, seed |-> s, pos |-> p, cls |-> ""]
       \/ o = "del" /\ \E p \in 1..SeedLens[s] : e' = [op |-> o, seed |-> s, pos |-> p, cls |-> ""]
       \/ o = "ins" /\ \E p \in 0..SeedLens[s] : \E c \in Repl : e' = [op |-> o, seed |-> s, pos |-> p, cls |-> c]
       \/ o = "rep" /\ \E p \in 1..SeedLens[s] : \E c \in Repl : e' = [op |-> o, seed |-> s, pos |-> p, cls |-> c]
       \/ o = "dup" /\ \E p \in 1..SeedLens[s] : e' = [op |-> o, seed |-> s, pos |-> p, cls |-> ""]
       \/ o = "swap" /\ \E p \in 1..(SeedLens[s] - 1) : e' = [op |-> o, seed |-> s, pos |-> p, cls |-> ""]
Next == Pick
Export == e.op # "none" => CSVWrite("%1$s", <<ToJson(e)>>, IOEnv.OUT)
=============================================================================
