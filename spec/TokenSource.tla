------------------------------ MODULE TokenSource ------------------------------
(***************************************************************************)
(* The caching, mode-switching token source (peg_parser/tokenizer.py),     *)
(* written to be bound: one action per public method of the Tokenizer      *)
(* class, the three macro flags set and cleared as the grammar actions do, *)
(* and the raw-capture loops as the code runs them inside peek().          *)
(*                                                                         *)
(* The parser is the environment: TLC explores every sequence of           *)
(* Peek / GetNext / Reset / flag operations over a raw token stream Raw    *)
(* (what generate_tokens would deliver).  A raw token is [ty, s, b, e]:    *)
(* kind, text, and the character offsets of its start and end in the       *)
(* source, so that "captured text" can be stated as a source slice.        *)
(*                                                                         *)
(* Laws (invariants / action properties):                                  *)
(*   IndexOK            0 <= index <= Len(cache)                            *)
(*   CacheAppendOnly    tokens handed out never change (action property)   *)
(*   PushbackAtMostOne  the push-back stack holds at most one token        *)
(*   NoBlankDelivered   NL / COMMENT (and WS outside a subprocess macro)   *)
(*                      are never delivered; no two NEWLINEs in a row      *)
(*   CaptureIsSlice     (C07) every MACRO_PARAM delivered by call-macro    *)
(*                      capture spans exactly from the start of its first  *)
(*                      raw token to the end of its last one, and those    *)
(*                      are the tokens between two top-level delimiters    *)
(*   ExhaustionIsError  (C03) pulling past the end of Raw ends in the      *)
(*                      error state, never in an uncontrolled one          *)
(*   CallFlagClearedAtCloser (C14) after the closing ")" of a call macro   *)
(*                      has been seen at top level the call flag is off    *)
(*   WithCaptureIsBlock (C07) a MACRO_PARAM delivered by with-macro capture *)
(*                      holds a contiguous range of source lines, ending   *)
(*                      right before the line of the DEDENT that closed    *)
(*                      the block, or on the line of the NEWLINE that      *)
(*                      closed the one-line form                           *)
(*   WithFlagClearedAtDedent (C14) a block capture that met its DEDENT     *)
(*                      leaves the with flag off                           *)
(* The same module is the reference for model-based testing of the real    *)
(* class: harness/props/c07.py replays TLC-generated call sequences into   *)
(* a real Tokenizer fed with a synthetic generator and compares            *)
(* <<index, Len(cache), flags, Len(stack), kind and text of the result>>   *)
(* after every call (differences are reported as model drift).             *)
(***************************************************************************)
EXTENDS Naturals, Sequences, TLC, Json, CSV, IOUtils
CONSTANTS Raw,        \* the raw token stream of one input
          MaxCalls,   \* bound on the number of parser calls in a behaviour
          AllowWith   \* the environment may start with-macro captures (line-structured streams only)

VARIABLES gen,        \* number of raw tokens pulled so far
          cache, index,
          callMacro, withMacro, procMacro,
          stack,      \* push-back
          err,        \* "" | "SyntaxError" | "StopIteration" (must never happen)
          hist        \* history of calls and observations (for export; hidden by View)
vars == <<gen, cache, index, callMacro, withMacro, procMacro, stack, err, hist>>
View == <<gen, cache, index, callMacro, withMacro, procMacro, stack, err>>

Openers == {"(", "[", "{"}
OpenerOf(c) == CASE c = ")" -> "(" [] c = "]" -> "[" [] c = "}" -> "{" [] OTHER -> ""
LastCh(t) == IF t.ty = "OP" /\ t.s # "" THEN (IF t.s \in {"(", "!(", "$(", "@(", "@$("} THEN "(" ELSE IF t.s \in {"[", "![", "$["} THEN "["
                                               ELSE IF t.s \in {"{", "${"} THEN "{" ELSE t.s) ELSE ""
Blank(t, c) == \/ t.ty \in {"NL", "COMMENT"}
               \/ t.ty = "WS" /\ ~procMacro
               \/ t.ty = "NEWLINE" /\ c # <<>> /\ c[Len(c)].ty = "NEWLINE"

\* ---- call-macro raw capture: consume_macro_params as one recursive scan -----------------
\* returns [g: raw tokens consumed, tok: token to deliver or <<>>, push: token pushed back or <<>>,
\*          clear: the call flag is cleared, error: "" or the error class]
RECURSIVE Capture(_, _, _, _, _, _)
\* allws: everything captured so far is whitespace (such an argument is delivered as WS and then filtered)
Capture(g, open, first, last, any, allws) ==
  IF g >= Len(Raw) THEN [g |-> g, tok |-> <<>>, push |-> <<>>, clear |-> FALSE, error |-> "SyntaxError"]   \* ran out of tokens
  ELSE LET t == Raw[g + 1]
           open1 == IF LastCh(t) \in Openers THEN Append(open, LastCh(t)) ELSE open
       IN IF open1 # <<>>
          THEN IF t.ty = "OP" /\ OpenerOf(t.s) # ""
               THEN IF open1[Len(open1)] = OpenerOf(t.s)
                    THEN Capture(g + 1, SubSeq(open1, 1, Len(open1) - 1), IF any THEN first ELSE t.b, t.e, TRUE, FALSE)
                    ELSE [g |-> g + 1, tok |-> <<>>, push |-> <<>>, clear |-> FALSE, error |-> "SyntaxError"]         \* unmatched closer
               ELSE Capture(g + 1, open1, IF any THEN first ELSE t.b, t.e, TRUE, allws /\ t.ty = "WS")
          ELSE IF t.ty = "OP" /\ t.s = ")"
               THEN IF any THEN [g |-> g + 1, tok |-> [ty |-> IF allws THEN "WS" ELSE "MACRO_PARAM", s |-> "", b |-> first, e |-> last, ln |-> t.ln], push |-> t, clear |-> TRUE, error |-> ""]
                    ELSE [g |-> g + 1, tok |-> t, push |-> <<>>, clear |-> TRUE, error |-> ""]                         \* empty: the closer itself
               ELSE IF t.ty = "OP" /\ t.s = ","
               THEN IF any THEN [g |-> g + 1, tok |-> [ty |-> IF allws THEN "WS" ELSE "MACRO_PARAM", s |-> "", b |-> first, e |-> last, ln |-> t.ln], push |-> <<>>, clear |-> FALSE, error |-> ""]
                    ELSE [g |-> g + 1, tok |-> t, push |-> <<>>, clear |-> FALSE, error |-> "", bare |-> TRUE]         \* delimiter with nothing before it
               ELSE Capture(g + 1, open1, IF any THEN first ELSE t.b, t.e, TRUE, allws /\ t.ty = "WS")

\* ---- with-macro raw capture: consume_with_macro_params as one recursive scan ------------------
\* a raw token also carries ln, its line number; a NEWLINE with s = "" is the implicit one the scanner adds at the end of input
\* g: raw tokens consumed, idx: position in the loop, ind: the block form was recognised, n: indentation levels opened inside
\* the block, ls: line numbers captured so far (the first token of each line puts its line in)
\* (ls[i] = <<line number, column and type of the token that put the line in>>)
\* lead: only blank / comment lines since the header (the block may still begin); hdr: nothing but the line end followed the colon;
\* bc: width of the block's indentation
RECURSIVE WCapture(_, _, _, _, _, _, _, _)
\* a comment written left of the block after its last statement is not part of the block, nor is what follows it
RECURSIVE TailStart(_, _)
TailStart(ls, k) == IF k > 0 /\ ls[k][3] \in {"COMMENT", "NL"} THEN TailStart(ls, k - 1) ELSE k      \* index of the last code line
TrimBlock(ls, bc) ==
  LET t == TailStart(ls, Len(ls))
      cut == {i \in (t + 1)..Len(ls) : ls[i][3] = "COMMENT" /\ ls[i][2] < bc}
  IN IF cut = {} THEN ls ELSE SubSeq(ls, 1, (CHOOSE i \in cut : \A j \in cut : i <= j) - 1)
WCapture(g, idx, ind, n, ls, lead, hdr, bc) ==
  IF g >= Len(Raw) THEN [g |-> g, ls |-> IF ind THEN TrimBlock(ls, bc) ELSE ls, ind |-> ind, clear |-> FALSE, stop |-> 0, by |-> "eof", error |-> ""]
  ELSE LET t == Raw[g + 1]
           keep == IF \E i \in 1..Len(ls) : ls[i][1] = t.ln THEN ls ELSE Append(ls, <<t.ln, t.b, t.ty>>)
           code == t.ty \notin {"COMMENT", "NL", "WS"} \/ idx = 0
           lead2 == lead /\ ~code
           bad == code /\ lead /\ hdr /\ ~ind /\ t.ty # "ENDMARKER"          \* a statement where the block had to begin
       IN IF idx = 0 /\ t.ty = "NEWLINE" THEN WCapture(g + 1, idx + 1, ind, n, ls, lead, TRUE, bc)
          ELSE IF t.ty = "INDENT"
               THEN IF ~ind /\ lead /\ idx > 0 THEN WCapture(g + 1, idx + 1, TRUE, n, ls, FALSE, hdr, t.e - t.b)
                    ELSE IF bad THEN [g |-> g + 1, ls |-> ls, ind |-> ind, clear |-> FALSE, stop |-> 0, by |-> "error", error |-> "SyntaxError"]
                    ELSE WCapture(g + 1, idx + 1, ind, n + 1, keep, lead2, hdr, bc)
          ELSE IF t.ty = "DEDENT"
               THEN IF n > 0 THEN WCapture(g + 1, idx + 1, ind, n - 1, ls, lead, hdr, bc)
                    ELSE [g |-> g + 1, ls |-> IF ind THEN TrimBlock(ls, bc) ELSE ls, ind |-> ind, clear |-> TRUE, stop |-> t.ln, by |-> "dedent", error |-> ""]
          ELSE IF t.ty = "NEWLINE" /\ ~ind THEN [g |-> g + 1, ls |-> ls, ind |-> ind, clear |-> FALSE, stop |-> t.ln, by |-> "newline", error |-> ""]
          ELSE IF t.ty = "NEWLINE" /\ t.s = "" THEN WCapture(g + 1, idx + 1, ind, n, ls, lead, hdr, bc)
          ELSE IF bad THEN [g |-> g + 1, ls |-> ls, ind |-> ind, clear |-> FALSE, stop |-> 0, by |-> "error", error |-> "SyntaxError"]
          ELSE WCapture(g + 1, idx + 1, ind, n, keep, lead2, hdr, bc)

\* ---- peek(): fill the cache until index < Len(cache) -------------------------------------
RECURSIVE Fill(_, _, _, _, _, _)
\* returns [g, c, st, cm, wm, error]
Fill(g, c, st, cm, wm, steps) ==
  IF index < Len(c) \/ steps = 0 THEN [g |-> g, c |-> c, st |-> st, cm |-> cm, wm |-> wm, error |-> ""]
  ELSE IF wm
       THEN LET r == WCapture(g, 0, FALSE, 0, <<>>, TRUE, FALSE, 0)
                at == c[Len(c)].e                              \* the capture is placed at the end of the header's last token
                tok == [ty |-> "MACRO_PARAM", s |-> "", b |-> at, e |-> at, ln |-> c[Len(c)].ln, ls |-> r.ls, ind |-> r.ind,
                        hdr |-> c[Len(c)].ln, stop |-> r.stop, by |-> r.by]
            IN IF r.error # "" THEN [g |-> r.g, c |-> c, st |-> st, cm |-> cm, wm |-> wm, error |-> r.error]
               ELSE Fill(r.g, Append(c, tok), st, cm, wm /\ ~r.clear, steps - 1)
  ELSE IF cm /\ ~withMacro
       THEN LET r == Capture(g, <<>>, 0, 0, FALSE, TRUE) IN
            IF r.error # "" THEN [g |-> r.g, c |-> c, st |-> st, cm |-> cm, wm |-> wm, error |-> r.error]
            ELSE LET st1 == IF r.push # <<>> THEN Append(st, r.push) ELSE st
                     cm1 == cm /\ ~r.clear
                     \* "if (not string) and self._stack: return self._stack.pop()": a bare delimiter is dropped in favour of
                     \* whatever is still on the push-back stack (as the code does)
                     stale == "bare" \in DOMAIN r /\ st1 # <<>>
                     tok == IF stale THEN st1[Len(st1)] ELSE r.tok
                     st2 == IF stale THEN SubSeq(st1, 1, Len(st1) - 1) ELSE st1
                     \* a whitespace-only argument comes back as WS and is filtered like any blank
                 IN Fill(r.g, IF Blank(tok, c) THEN c ELSE Append(c, tok), st2, cm1, wm, steps - 1)
       ELSE IF st # <<>>
            THEN LET t == st[Len(st)] IN Fill(g, IF Blank(t, c) THEN c ELSE Append(c, t), SubSeq(st, 1, Len(st) - 1), cm, wm, steps - 1)
            ELSE IF g >= Len(Raw) THEN [g |-> g, c |-> c, st |-> st, cm |-> cm, wm |-> wm, error |-> "SyntaxError"]
                 ELSE LET t == Raw[g + 1] IN Fill(g + 1, IF Blank(t, c) THEN c ELSE Append(c, t), st, cm, wm, steps - 1)

IsWithParam(t) == t.ty = "MACRO_PARAM" /\ "ls" \in DOMAIN t
Obs(op, arg) == [op |-> op, arg |-> arg, index |-> index', n |-> Len(cache'), call |-> callMacro', proc |-> procMacro', with |-> withMacro',
                 ls |-> IF err' = "" /\ op \in {"peek", "getnext"} /\ index < Len(cache') /\ IsWithParam(cache'[index + 1]) THEN cache'[index + 1].ls ELSE <<>>,
                 oneline |-> (err' = "" /\ op \in {"peek", "getnext"} /\ index < Len(cache') /\ IsWithParam(cache'[index + 1]) /\ ~cache'[index + 1].ind),
                 stack |-> Len(stack'), err |-> err',
                 ty |-> IF err' = "" /\ op \in {"peek", "getnext"} /\ index < Len(cache') THEN cache'[index + 1].ty ELSE "",
                 b |-> IF err' = "" /\ op \in {"peek", "getnext"} /\ index < Len(cache') THEN cache'[index + 1].b ELSE 0,
                 e |-> IF err' = "" /\ op \in {"peek", "getnext"} /\ index < Len(cache') THEN cache'[index + 1].e ELSE 0]

DoPeek(advance) ==
  /\ err = ""
  /\ LET r == Fill(gen, cache, stack, callMacro, withMacro, Len(Raw) + 2) IN
     /\ gen' = r.g /\ cache' = r.c /\ stack' = r.st /\ callMacro' = r.cm /\ withMacro' = r.wm
     /\ err' = r.error
     /\ index' = IF r.error = "" /\ advance THEN index + 1 ELSE index
  /\ UNCHANGED procMacro

Peek    == DoPeek(FALSE) /\ hist' = Append(hist, Obs("peek", 0))
GetNext == DoPeek(TRUE) /\ hist' = Append(hist, Obs("getnext", 0))
Reset(m) == /\ err = "" /\ m \in 0..Len(cache) /\ index' = m
            /\ UNCHANGED <<gen, cache, callMacro, withMacro, procMacro, stack, err>>
            /\ hist' = Append(hist, Obs("reset", m))
SetCall == /\ err = "" /\ ~callMacro /\ ~withMacro /\ callMacro' = TRUE       \* handle_func_macro_start, possibly on an abandoned path
           /\ UNCHANGED <<gen, cache, index, withMacro, procMacro, stack, err>>
           /\ hist' = Append(hist, Obs("setcall", 0))
SetProc(v) == /\ err = "" /\ procMacro # v /\ procMacro' = v    \* handle_proc_macro_start / proc_macro_arg
              /\ UNCHANGED <<gen, cache, index, callMacro, withMacro, stack, err>>
              /\ hist' = Append(hist, Obs(IF v THEN "setproc" ELSE "clearproc", 0))

\* handle_with_macro_start (after the header has been read: the capture is placed at the end of the last token) / handle_with_macro_stmt
SetWith == /\ AllowWith /\ err = "" /\ ~withMacro /\ ~callMacro /\ cache # <<>> /\ index = Len(cache) /\ withMacro' = TRUE
           /\ UNCHANGED <<gen, cache, index, callMacro, procMacro, stack, err>>
           /\ hist' = Append(hist, Obs("setwith", 0))
ClearWith == /\ err = "" /\ withMacro /\ withMacro' = FALSE
             /\ UNCHANGED <<gen, cache, index, callMacro, procMacro, stack, err>>
             /\ hist' = Append(hist, Obs("clearwith", 0))

Init == /\ gen = 0 /\ cache = <<>> /\ index = 0 /\ callMacro = FALSE /\ withMacro = FALSE /\ procMacro = FALSE
        /\ stack = <<>> /\ err = "" /\ hist = <<>>
Next == /\ Len(hist) < MaxCalls
        /\ (Peek \/ GetNext \/ (\E m \in 0..Len(cache) : Reset(m)) \/ SetCall \/ SetProc(TRUE) \/ SetProc(FALSE) \/ SetWith \/ ClearWith)

\* ---- laws -----------------------------------------------------------------------------------
IndexOK == index \in 0..Len(cache)
PushbackAtMostOne == Len(stack) <= 1
NoBlankDelivered == \A i \in 1..Len(cache) :
                       /\ cache[i].ty \notin {"NL", "COMMENT"}
                       /\ (i > 1 /\ cache[i].ty = "NEWLINE") => cache[i - 1].ty # "NEWLINE"
ExhaustionIsError == err \in {"", "SyntaxError"}
\* a delivered MACRO_PARAM covers whole raw tokens: it begins at the start of a raw token that follows a delimiter
\* and ends at the end of a raw token that precedes one
CaptureIsSlice == \A i \in 1..Len(cache) : (cache[i].ty = "MACRO_PARAM" /\ ~IsWithParam(cache[i])) =>
                     /\ cache[i].b < cache[i].e
                     /\ \E j \in 1..Len(Raw) : Raw[j].b = cache[i].b
                     /\ \E j \in 1..Len(Raw) : Raw[j].e = cache[i].e
\* a with-capture holds a contiguous range of lines: block form = the lines after the header up to the line before the token
\* that ended it (when the input ended first: up to the last line seen); one-line form = the header line only
Range(a, b) == [i \in 1..(IF b >= a THEN b - a + 1 ELSE 0) |-> a + i - 1]
WithCaptureIsBlock == \A i \in 1..Len(cache) : IsWithParam(cache[i]) =>
                         LET t == cache[i] IN
                         LET lns == [k \in 1..Len(t.ls) |-> t.ls[k][1]] IN
                         CASE t.by = "dedent"  -> \E last \in 0..(t.stop - 1) : lns = Range(last - Len(lns) + 1, last)   \* contiguous, ending before the line of the DEDENT
                           [] t.by = "newline" -> lns = <<>> \/ lns = Range(t.stop - Len(lns) + 1, t.stop)   \* contiguous, up to the line its NEWLINE is on
                           [] OTHER -> TRUE
WithFlagClearedAtDedent == [][(Len(cache') > Len(cache) /\ IsWithParam(cache'[Len(cache')]) /\ cache'[Len(cache')].ind /\ cache'[Len(cache')].stop > 0)
                                => ~withMacro']_vars
CacheAppendOnly == [][\A i \in 1..Len(cache) : i <= Len(cache') /\ cache'[i] = cache[i]]_vars
Spec == Init /\ [][Next]_vars

Export == (Len(hist) = MaxCalls \/ err # "") => CSVWrite("%1$s", <<ToJson([hist |-> hist])>>, IOEnv.OUT)
=============================================================================
