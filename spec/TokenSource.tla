------------------------------ MODULE TokenSource ------------------------------
(***************************************************************************)
(* The caching, mode-switching token source (peg_parser/tokenizer.py),     *)
(* written to be bound: one action per public method of the Tokenizer      *)
(* class, the three macro flags set and cleared as the grammar actions do, *)
(* and the raw-capture loops as the code runs them inside peek().          *)
(*                                                                         *)
(* The parser is the environment: TLC explores every sequence of           *)
(* Peek / GetNext / Reset / flag operations over a raw token stream Raw    *)
(* (what generate_tokens would deliver).  A raw token is [ty, s, b, e]:    *)
(* kind, text, and the character offsets of its start and end in the       *)
(* source, so that "captured text" can be stated as a source slice.        *)
(*                                                                         *)
(* Laws (invariants / action properties):                                  *)
(*   IndexOK            0 <= index <= Len(cache)                            *)
(*   CacheAppendOnly    tokens handed out never change (action property)   *)
(*   PushbackAtMostOne  the push-back stack holds at most one token        *)
(*   NoBlankDelivered   NL / COMMENT (and WS outside a subprocess macro)   *)
(*                      are never delivered; no two NEWLINEs in a row      *)
(*   CaptureIsSlice     (C07) every MACRO_PARAM delivered by call-macro    *)
(*                      capture spans exactly from the start of its first  *)
(*                      raw token to the end of its last one, and those    *)
(*                      are the tokens between two top-level delimiters    *)
(*   ExhaustionIsError  (C03) pulling past the end of Raw ends in the      *)
(*                      error state, never in an uncontrolled one          *)
(*   CallFlagClearedAtCloser (C14) after the closing ")" of a call macro   *)
(*                      has been seen at top level the call flag is off    *)
(* The same module is the reference for model-based testing of the real    *)
(* class: harness/props/c07.py replays TLC-generated call sequences into   *)
(* a real Tokenizer fed with a synthetic generator and compares            *)
(* <<index, Len(cache), flags, Len(stack), kind and text of the result>>   *)
(* after every call (differences are reported as model drift).             *)
(***************************************************************************)
EXTENDS Naturals, Sequences, TLC, Json, CSV, IOUtils
CONSTANTS Raw,        \* the raw token stream of one input
          MaxCalls    \* bound on the number of parser calls in a behaviour

VARIABLES gen,        \* number of raw tokens pulled so far
          cache, index,
          callMacro, withMacro, procMacro,
          stack,      \* push-back
          err,        \* "" | "SyntaxError" | "StopIteration" (must never happen)
          hist        \* history of calls and observations (for export; hidden by View)
vars == <<gen, cache, index, callMacro, withMacro, procMacro, stack, err, hist>>
View == <<gen, cache, index, callMacro, withMacro, procMacro, stack, err>>

Openers == {"(", "[", "{"}
OpenerOf(c) == CASE c = ")" -> "(" [] c = "]" -> "[" [] c = "}" -> "{" [] OTHER -> ""
LastCh(t) == IF t.ty = "OP" /\ t.s # "" THEN (IF t.s \in {"(", "!(", "$(", "@(", "@$("} THEN "(" ELSE IF t.s \in {"[", "![", "$["} THEN "["
                                               ELSE IF t.s \in {"{", "${"} THEN "{" ELSE t.s) ELSE ""
Blank(t, c) == \/ t.ty \in {"NL", "COMMENT"}
               \/ t.ty = "WS" /\ ~procMacro
               \/ t.ty = "NEWLINE" /\ c # <<>> /\ c[Len(c)].ty = "NEWLINE"

\* ---- call-macro raw capture: consume_macro_params as one recursive scan -----------------
\* returns [g: raw tokens consumed, tok: token to deliver or <<>>, push: token pushed back or <<>>,
\*          clear: the call flag is cleared, error: "" or the error class]
RECURSIVE Capture(_, _, _, _, _, _)
\* allws: everything captured so far is whitespace (such an argument is delivered as WS and then filtered)
Capture(g, open, first, last, any, allws) ==
  IF g >= Len(Raw) THEN [g |-> g, tok |-> <<>>, push |-> <<>>, clear |-> FALSE, error |-> "SyntaxError"]   \* ran out of tokens
  ELSE LET t == Raw[g + 1]
           open1 == IF LastCh(t) \in Openers THEN Append(open, LastCh(t)) ELSE open
       IN IF open1 # <<>>
          THEN IF t.ty = "OP" /\ OpenerOf(t.s) # ""
               THEN IF open1[Len(open1)] = OpenerOf(t.s)
                    THEN Capture(g + 1, SubSeq(open1, 1, Len(open1) - 1), IF any THEN first ELSE t.b, t.e, TRUE, FALSE)
                    ELSE [g |-> g + 1, tok |-> <<>>, push |-> <<>>, clear |-> FALSE, error |-> "SyntaxError"]         \* unmatched closer
               ELSE Capture(g + 1, open1, IF any THEN first ELSE t.b, t.e, TRUE, allws /\ t.ty = "WS")
          ELSE IF t.ty = "OP" /\ t.s = ")"
               THEN IF any THEN [g |-> g + 1, tok |-> [ty |-> IF allws THEN "WS" ELSE "MACRO_PARAM", s |-> "", b |-> first, e |-> last], push |-> t, clear |-> TRUE, error |-> ""]
                    ELSE [g |-> g + 1, tok |-> t, push |-> <<>>, clear |-> TRUE, error |-> ""]                         \* empty: the closer itself
               ELSE IF t.ty = "OP" /\ t.s = ","
               THEN IF any THEN [g |-> g + 1, tok |-> [ty |-> IF allws THEN "WS" ELSE "MACRO_PARAM", s |-> "", b |-> first, e |-> last], push |-> <<>>, clear |-> FALSE, error |-> ""]
                    ELSE [g |-> g + 1, tok |-> t, push |-> <<>>, clear |-> FALSE, error |-> "", bare |-> TRUE]         \* delimiter with nothing before it
               ELSE Capture(g + 1, open1, IF any THEN first ELSE t.b, t.e, TRUE, allws /\ t.ty = "WS")

\* ---- peek(): fill the cache until index < Len(cache) -------------------------------------
RECURSIVE Fill(_, _, _, _, _)
\* returns [g, c, st, cm, error]
Fill(g, c, st, cm, steps) ==
  IF index < Len(c) \/ steps = 0 THEN [g |-> g, c |-> c, st |-> st, cm |-> cm, error |-> ""]
  ELSE IF cm /\ ~withMacro
       THEN LET r == Capture(g, <<>>, 0, 0, FALSE, TRUE) IN
            IF r.error # "" THEN [g |-> r.g, c |-> c, st |-> st, cm |-> cm, error |-> r.error]
            ELSE LET st1 == IF r.push # <<>> THEN Append(st, r.push) ELSE st
                     cm1 == cm /\ ~r.clear
                     \* "if (not string) and self._stack: return self._stack.pop()": a bare delimiter is dropped in favour of
                     \* whatever is still on the push-back stack (as the code does)
                     stale == "bare" \in DOMAIN r /\ st1 # <<>>
                     tok == IF stale THEN st1[Len(st1)] ELSE r.tok
                     st2 == IF stale THEN SubSeq(st1, 1, Len(st1) - 1) ELSE st1
                     \* a whitespace-only argument comes back as WS and is filtered like any blank
                 IN Fill(r.g, IF Blank(tok, c) THEN c ELSE Append(c, tok), st2, cm1, steps - 1)
       ELSE IF st # <<>>
            THEN LET t == st[Len(st)] IN Fill(g, IF Blank(t, c) THEN c ELSE Append(c, t), SubSeq(st, 1, Len(st) - 1), cm, steps - 1)
            ELSE IF g >= Len(Raw) THEN [g |-> g, c |-> c, st |-> st, cm |-> cm, error |-> "SyntaxError"]
                 ELSE LET t == Raw[g + 1] IN Fill(g + 1, IF Blank(t, c) THEN c ELSE Append(c, t), st, cm, steps - 1)

Obs(op, arg) == [op |-> op, arg |-> arg, index |-> index', n |-> Len(cache'), call |-> callMacro', proc |-> procMacro',
                 stack |-> Len(stack'), err |-> err',
                 ty |-> IF err' = "" /\ op \in {"peek", "getnext"} /\ index < Len(cache') THEN cache'[index + 1].ty ELSE "",
                 b |-> IF err' = "" /\ op \in {"peek", "getnext"} /\ index < Len(cache') THEN cache'[index + 1].b ELSE 0,
                 e |-> IF err' = "" /\ op \in {"peek", "getnext"} /\ index < Len(cache') THEN cache'[index + 1].e ELSE 0]

DoPeek(advance) ==
  /\ err = "" /\ ~withMacro
  /\ LET r == Fill(gen, cache, stack, callMacro, Len(Raw) + 2) IN
     /\ gen' = r.g /\ cache' = r.c /\ stack' = r.st /\ callMacro' = r.cm
     /\ err' = r.error
     /\ index' = IF r.error = "" /\ advance THEN index + 1 ELSE index
  /\ UNCHANGED <<withMacro, procMacro>>

Peek    == DoPeek(FALSE) /\ hist' = Append(hist, Obs("peek", 0))
GetNext == DoPeek(TRUE) /\ hist' = Append(hist, Obs("getnext", 0))
Reset(m) == /\ err = "" /\ m \in 0..Len(cache) /\ index' = m
            /\ UNCHANGED <<gen, cache, callMacro, withMacro, procMacro, stack, err>>
            /\ hist' = Append(hist, Obs("reset", m))
SetCall == /\ err = "" /\ ~callMacro /\ callMacro' = TRUE       \* handle_func_macro_start, possibly on an abandoned path
           /\ UNCHANGED <<gen, cache, index, withMacro, procMacro, stack, err>>
           /\ hist' = Append(hist, Obs("setcall", 0))
SetProc(v) == /\ err = "" /\ procMacro # v /\ procMacro' = v    \* handle_proc_macro_start / proc_macro_arg
              /\ UNCHANGED <<gen, cache, index, callMacro, withMacro, stack, err>>
              /\ hist' = Append(hist, Obs(IF v THEN "setproc" ELSE "clearproc", 0))

Init == /\ gen = 0 /\ cache = <<>> /\ index = 0 /\ callMacro = FALSE /\ withMacro = FALSE /\ procMacro = FALSE
        /\ stack = <<>> /\ err = "" /\ hist = <<>>
Next == /\ Len(hist) < MaxCalls
        /\ (Peek \/ GetNext \/ (\E m \in 0..Len(cache) : Reset(m)) \/ SetCall \/ SetProc(TRUE) \/ SetProc(FALSE))

\* ---- laws -----------------------------------------------------------------------------------
IndexOK == index \in 0..Len(cache)
PushbackAtMostOne == Len(stack) <= 1
NoBlankDelivered == \A i \in 1..Len(cache) :
                       /\ cache[i].ty \notin {"NL", "COMMENT"}
                       /\ (i > 1 /\ cache[i].ty = "NEWLINE") => cache[i - 1].ty # "NEWLINE"
ExhaustionIsError == err \in {"", "SyntaxError"}
\* a delivered MACRO_PARAM covers whole raw tokens: it begins at the start of a raw token that follows a delimiter
\* and ends at the end of a raw token that precedes one
CaptureIsSlice == \A i \in 1..Len(cache) : cache[i].ty = "MACRO_PARAM" =>
                     /\ cache[i].b < cache[i].e
                     /\ \E j \in 1..Len(Raw) : Raw[j].b = cache[i].b
                     /\ \E j \in 1..Len(Raw) : Raw[j].e = cache[i].e
CacheAppendOnly == [][\A i \in 1..Len(cache) : i <= Len(cache') /\ cache'[i] = cache[i]]_vars
Spec == Init /\ [][Next]_vars

Export == (Len(hist) = MaxCalls \/ err # "") => CSVWrite("%1$s", <<ToJson([hist |-> hist])>>, IOEnv.OUT)
=============================================================================
