------------------------------ MODULE CharGen ------------------------------
(***************************************************************************)
(* Input-space generator over the abstract alphabet (see harness/alpha.py  *)
(* for the abstraction function: a character class stands for every        *)
(* Unicode character with that lexical role; role letters and every ASCII  *)
(* punctuation character are their own class).  TLC enumerates every       *)
(* abstract string of length MinLen..MaxLen over Alphabet (BFS) or random   *)
(* ones (-simulate); every state is exported as one JSON line.             *)
(***************************************************************************)
EXTENDS Naturals, Sequences, TLC, Json, CSV, IOUtils
CONSTANTS Alphabet, MaxLen, MinLen
VARIABLE s
Init == s = <<>>
Next == Len(s) < MaxLen /\ \E c \in Alphabet : s' = Append(s, c)
Export == Len(s) >= MinLen => CSVWrite("%1$s", <<ToJson([abs |-> s])>>, IOEnv.OUT)
Spec == Init /\ [][Next]_s
=============================================================================
