# f"{$HOME}"
f'{__xonsh__.env['HOME']}'
