lambda: 1

lambda x: x

lambda x,: x

lambda x=1: x

lambda x, y: x + y

lambda x, /: x

lambda x, y=1, /: x + y

lambda x, /, y: x + y

lambda x, /, y=1, z=2: x + y + z

lambda x, y=1, /, z=5: x + y + z

lambda x=1, /, *y: x + y

lambda x, *, y: x + y

lambda x, *, y, z: x + y + z

lambda *, x: x

lambda *x: x

lambda **x: x

lambda x, **y: y
