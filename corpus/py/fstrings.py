a = 10
f'{a * x()}'



f'no formatted values'
f'eggs {a * x()} spam {b + y()}'



a = 10
f'{a * x()} {a * x()} {a * x()}'



a = 10
f'''
  {a
     *
       x()}
non-important content
'''



a = f'''
          {blech}
    '''



x = (
    f" {test(t)}"
)



x = (
    u'wat',
    u"wat",
    b'wat',
    b"wat",
    f'wat',
    f"wat",
)
y = (
    u'''wat''',
    u"""wat""",
    b'''wat''',
    b"""wat""",
    f'''wat''',
    f"""wat""",
)



x = (
        'PERL_MM_OPT', (
            f'wat'
            f'some_string={f(x)} '
            f'wat'
        ),
)



f'{expr:}'



foo = 3.14159
verbosePrint(f'Foo {foo:.3} bar.')



st = 'string'
f"{st!r}"