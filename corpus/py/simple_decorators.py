@d
def f():
    pass


@d.a
def f():
    pass


@d()
def f():
    pass


@d.f()
def f():
    pass


@d(a)
def f():
    pass


@d
class A:
    pass
