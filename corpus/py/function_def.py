def f():
    pass


def f() -> None:
    pass


def f(a):
    pass


def f(a: int) -> Tuple[int, ...]:
    pass


def f(a: int = 1) -> Tuple[int, ...]:
    pass


def f(a, b: int):
    pass


def f(a: bool, b: int = 1):
    pass


def f(a, /):
    pass


def f(a=1, /):
    pass


def f(a, b=1, /):
    pass


def f(a, /, b):
    pass


def f(a, c=2, /, b=5):
    pass


def f(a, /, b=1):
    pass


def f(a, *, b):
    pass


def f(a, *, b, c=1):
    pass


def f(a, *, b=1):
    pass


def f(*, b):
    pass


def f(*, b, c=1):
    pass


def f(*, b=1):
    pass


def f(b=1, *c):
    pass


def f(*args):
    pass


def f(**kwargs):
    pass


def f(a, **kwargs):
    pass


def f(a=1, **kwargs):
    pass


def f(*, a=1, **kwargs):
    pass


def f(*a, **b):
    pass


def f(a, /, b, *, v=1, **d):
    pass


async def f():
    pass


async def f() -> None:
    pass


async def f(a):
    pass


async def f(a: int) -> Tuple[int, ...]:
    pass


async def f(a: int = 1) -> Tuple[int, ...]:
    pass


async def f(a, b: int):
    pass


async def f(a: bool, b: int = 1):
    pass


async def f(a, /):
    pass


async def f(a=1, /):
    pass


async def f(a, b=1, /):
    pass


async def f(a, /, b):
    pass


async def f(a, c=2, /, b=5):
    pass


async def f(a, /, b=1):
    pass


async def f(a, *, b):
    pass


async def f(a, *, b=1):
    pass


async def f(*, b):
    pass


async def f(*, b=1):
    pass


async def f(b=1, *c):
    pass


async def f(*args):
    pass


async def f(**kwargs):
    pass


async def f(a, **kwargs):
    pass


async def f(a=1, **kwargs):
    pass


async def f(*, a=1, **kwargs):
    pass


async def f(*a, **b):
    pass


async def f(a, /, b, *, v=1, **d):
    pass
