type TA1 = int
type TA2 = TA1 | str



type NonGeneric = int
type Generic[A] = dict[A, A]
type VeryGeneric[T, *Ts, **P] = Callable[P, tuple[T, *Ts]]




def outer[A]():
    type TA1[B] = dict[A, B]
    return TA1



class Parent[A]:
    type TA1[B] = dict[A, B]




class Outer[A]:
    def inner[B](self):
        type TA1[C] = TA1[A, B] | int
        return TA1



def more_generic[T, *Ts, **P]():
    type TA[T2, *Ts2, **P2] = tuple[Callable[P, tuple[T, *Ts]], Callable[P2, tuple[T2, *Ts2]]]
    return TA