a = b
a += b
a -= b
a *= b
a /= b
a //= b
a %= b
a |= b
a ^= b
a **= b
a &= b
a @= b
a <<= b
a >>= b
a += yield



(a) += 1
a[1] += 1
a.b += 1
a.b.c += 1
f(i for i in range(2)).a += 1
f().a += 1



(a) = 1
a.b = 1
a.b.c = 1
a.b.c.d = 1
a[b] = c
a[b][c] = 1
a.b[c] = 1
a[1:] = b
a[:1] = b
a[1:10:2] = b



a: int = b
a: int = yield
a.b: int
a.b: int = 1
a[b]: int = 1
a[b]: int = 1
a = 1
a = 1.0



a = ""
a = u""
a = r"\c"
a = b"a"
a = f"{a}"
a = f"{d}" "rr"
a = "rr" f"{d}" "rr"



a = ()
a = (1,)
a = (1, 2)



b = []
b = [
    1,
]
b = [1, 2]



c = {
    1,
}
c = {1, 2}
d = {}
d = {1: 2}
d = {
    1: 2,
}
d = {1: 2, 3: 4}



a = True
b = False
c = None



d = *a, (*b, c)
d = *a, (*b, *c)



f = (a := 1)



a, b = c
a, *b = c
a, *b, d = c
a, *b, d = yield d