if a:
    b = 1