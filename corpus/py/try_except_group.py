try:
    try:
        raise ExceptionGroup(
            "eg", [TypeError(1), ValueError(2), OSError(3)])
    except* TypeError as e:
        raise
    except* ValueError as e:
        raise
    # OSError not handled
except ExceptionGroup as e:
    exc = e



try:
    try:
        raise ExceptionGroup(
            "eg", [TypeError(1), ValueError(2), OSError(3)])
    except* TypeError:
        raise
    except* ValueError:
        raise
    # OSError not handled
except ExceptionGroup as e:
    exc = e



try:
    try:
        raise ExceptionGroup(
            "eg", [TypeError(1), ValueError(2), OSError(3)])
    except* TypeError as e:
        raise
    except* ValueError as e:
        pass
    # OSError not handled
except ExceptionGroup as e:
    exc = e



try:
    try:
        raise ExceptionGroup(
            "eg", [TypeError(1), ValueError(2)])
    except* TypeError:
        raise
    except* ValueError:
        pass
except ExceptionGroup as e:
    exc = e



try:
    try:
        raise ExceptionGroup(
            "eg", [TypeError(1), ValueError(2), OSError(3)])
    except* TypeError as e:
        raise
    except* ValueError as e:
        pass
    # OSError not handled
except ExceptionGroup as e:
    exc = e



try:
    try:
        raise ExceptionGroup(
            "eg", [TypeError(1), ValueError(2), OSError(3)])
    except* TypeError:
        raise
    except* ValueError:
        pass
except ExceptionGroup as e:
    exc = e



try:
    try:
        raise ValueError(42)
    except* ValueError as e:
        raise
except ExceptionGroup as e:
    exc = e



try:
    try:
        raise ValueError(42)
    except* ValueError:
        raise
except ExceptionGroup as e:
    exc = e



orig = ExceptionGroup("eg", [ValueError(1), OSError(2)])
try:
    try:
        raise orig
    except* OSError as e:
        raise TypeError(3)
except ExceptionGroup as e:
    exc = e



orig = ExceptionGroup("eg", [ValueError(1), OSError(2)])
try:
    try:
        raise orig
    except* OSError:
        raise TypeError(3)
except ExceptionGroup as e:
    exc = e



orig = ExceptionGroup("eg", [TypeError(1), ValueError(2)])
try:
    try:
        raise orig
    except* (TypeError, ValueError) as e:
        raise SyntaxError(3)
except SyntaxError as e:
    exc = e



orig = ExceptionGroup("eg", [TypeError(1), ValueError(2)])
try:
    try:
        raise orig
    except* (TypeError, ValueError) as e:
        raise SyntaxError(3)
except SyntaxError as e:
    exc = e



orig = ExceptionGroup("eg", [TypeError(1), ValueError(2)])
try:
    try:
        raise orig
    except* TypeError as e:
        raise SyntaxError(3)
    except* ValueError as e:
        raise SyntaxError(4)
except ExceptionGroup as e:
    exc = e



orig = ExceptionGroup("eg", [TypeError(1), ValueError(2)])
try:
    try:
        raise orig
    except* TypeError:
        raise SyntaxError(3)
    except* ValueError:
        raise SyntaxError(4)
except ExceptionGroup as e:
    exc = e



orig = ExceptionGroup("eg", [ValueError(1), OSError(2)])
try:
    try:
        raise orig
    except* OSError as e:
        raise TypeError(3) from e
except ExceptionGroup as e:
    exc = e




orig = ExceptionGroup("eg", [ValueError(1), OSError(2)])
try:
    try:
        raise orig
    except* OSError:
        e = sys.exception()
        raise TypeError(3) from e
except ExceptionGroup as e:
    exc = e



orig = ExceptionGroup("eg", [TypeError(1), ValueError(2)])
try:
    try:
        raise orig
    except* (TypeError, ValueError) as e:
        raise SyntaxError(3) from e
except SyntaxError as e:
    exc = e



orig = ExceptionGroup("eg", [TypeError(1), ValueError(2)])
try:
    try:
        raise orig
    except* (TypeError, ValueError) as e:
        e = sys.exception()
        raise SyntaxError(3) from e
except SyntaxError as e:
    exc = e



orig = ExceptionGroup("eg", [TypeError(1), ValueError(2)])
try:
    try:
        raise orig
    except* TypeError as e:
        raise SyntaxError(3) from e
    except* ValueError as e:
        raise SyntaxError(4) from e
except ExceptionGroup as e:
    exc = e



orig = ExceptionGroup("eg", [TypeError(1), ValueError(2)])
try:
    try:
        raise orig
    except* TypeError:
        e = sys.exception()
        raise SyntaxError(3) from e
    except* ValueError:
        e = sys.exception()
        raise SyntaxError(4) from e
except ExceptionGroup as e:
    exc = e

