a = 1  # type: int

for i in range(10):  # type: int
    pass


with a:  # type: int
    pass


def f(a): # type: (int) -> None
    pass


def f(a):
    # type: (int) -> None
    pass
