if a: b=1;
a = 1; b=2
