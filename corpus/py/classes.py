class A:
    pass


class A(B):
    pass


class A(
    B,
    C,
):
    pass


class A(metaclass=M):
    pass


class A(B, metaclass=M):
    pass


class A(*t):
    pass


class A(B, *t):
    pass


class A(**kw):
    pass


class A(B, **kw):
    pass
