async def f():
    pass


async def f():
    await b


async def f():
    async for i in range(10):
        pass


async def f():
    async with open(f) as p:
        pass


async def f():
    a = [i async for i in range(10)]
    return a
