a = (k for k in g)
b = (k for k in g if k == 1)
(k for k in g).send(None)


a = [k for k in g]
b = [k for k in g if k == 1]


a = {k for k in g}
b = {k for k in g if k == 1}
a = {k: 1 for k in g}
b = {k: 2 for k in g if k == 1}


[k for v in a for k in v]
