import test
import a, b
import test as t
import test as t, y
import test.a
import test.b as b


from test import a
from test import a, b
from test import (
    a,
    b,
)
from test import a as b
from test import a as b, c
from test import a as b, c as d
from test import *
from test.a import b
from test.a import b as c
from test.a import b, c
from test.a import b as c, d


from . import a
from ... import b
from .... import c
from ..a import b
from ...a import c
from ....a import c
from . import a, b
from ..a import b, c
from ...a import c, d
from ....a import c, d
