match 0:
    case 0:
        x = True


match 0:
    case 0 if False:
        x = False
    case 0 if True:
        x = True


match 0:
    case 0:
        x = True
    case 0:
        x = False


x = False
match 0:
    case 0 | 1 | 2 | 3:
        x = True


x = False
match 1:
    case 0 | 1 | 2 | 3:
        x = True


x = False
match 2:
    case 0 | 1 | 2 | 3:
        x = True


x = False
match 3:
    case 0 | 1 | 2 | 3:
        x = True


x = False
match 4:
    case 0 | 1 | 2 | 3:
        x = True


x = 0
class A:
    y = 1
match x:
    case A.y as z:
        pass


class A:
    B = 0
match 0:
    case x if x:
        z = 0
    case _ as y if y == x and y:
        z = 1
    case A.B:
        z = 2


match ():
    case []:
        x = 0


match (0, 1, 2):
    case [*x]:
        y = 0


match (0, 1, 2):
    case [0, *x]:
        y = 0


match (0, 1, 2):
    case [0, 1, *x,]:
        y = 0


match (0, 1, 2):
    case [0, 1, 2, *x]:
        y = 0


match (0, 1, 2):
    case [*x, 2,]:
        y = 0


match (0, 1, 2):
    case [*x, 1, 2]:
        y = 0


match (0, 1, 2):
    case [*x, 0, 1, 2,]:
        y = 0


match (0, 1, 2):
    case [0, *x, 2]:
        y = 0


match (0, 1, 2):
    case [0, 1, *x, 2,]:
        y = 0


match (0, 1, 2):
    case [0, *x, 1, 2]:
        y = 0


match (0, 1, 2):
    case [*x,]:
        y = 0


x = {}
match x:
    case {}:
        y = 0


x = {0: 0}
match x:
    case {}:
        y = 0


x = {}
y = None
match x:
    case {0: 0}:
        y = 0


x = {0: 0}
match x:
    case {0: (0 | 1 | 2 as z)}:
        y = 0


x = {0: 1}
match x:
    case {0: (0 | 1 | 2 as z)}:
        y = 0


x = {0: 2}
match x:
    case {0: (0 | 1 | 2 as z)}:
        y = 0


x = {0: 3}
y = None
match x:
    case {0: (0 | 1 | 2 as z)}:
        y = 0


x = {}
y = None
match x:
    case {0: [1, 2, {}]}:
        y = 0
    case {0: [1, 2, {}], 1: [[]]}:
        y = 1
    case []:
        y = 2


x = {False: (True, 2.0, {})}
match x:
    case {0: [1, 2, {}]}:
        y = 0
    case {0: [1, 2, {}], 1: [[]]}:
        y = 1
    case []:
        y = 2


x = {False: (True, 2.0, {}), 1: [[]], 2: 0}
match x:
    case {0: [1, 2, {}]}:
        y = 0
    case {0: [1, 2, {}], 1: [[]]}:
        y = 1
    case []:
        y = 2


x = {False: (True, 2.0, {}), 1: [[]], 2: 0}
match x:
    case {0: [1, 2]}:
        y = 0
    case {0: [1, 2, {}], 1: [[]]}:
        y = 1
    case []:
        y = 2


x = []
match x:
    case {0: [1, 2, {}]}:
        y = 0
    case {0: [1, 2, {}], 1: [[]]}:
        y = 1
    case []:
        y = 2


x = {0: 0}
match x:
    case {0: [1, 2, {}]}:
        y = 0
    case {0: ([1, 2, {}] | False)} | {1: [[]]} | {0: [1, 2, {}]} | [] | "X" | {}:
        y = 1
    case []:
        y = 2


x = {0: 0}
match x:
    case {0: [1, 2, {}]}:
        y = 0
    case {0: [1, 2, {}] | True} | {1: [[]]} | {0: [1, 2, {}]} | [] | "X" | {}:
        y = 1
    case []:
        y = 2

x = {0: 0}
match x:
    case {None: 1}:
        y = 0
    case {True: 1}:
        y = 0
    case {False: 1}:
        y = 0
    case {1 + 1j: 1}:
        y = 0
    case {a.b: 1}:
        y = 0


x = 0
match x:
    case 0 | 1 | 2:
        y = 0


x = 1
match x:
    case 0 | 1 | 2:
        y = 0


x = 2
match x:
    case 0 | 1 | 2:
        y = 0


x = 3
y = None
match x:
    case 0 | 1 | 2:
        y = 0


x = 0
match x:
    case (0 as z) | (1 as z) | (2 as z) if z == x % 2:
        y = 0


x = 1
match x:
    case (0 as z) | (1 as z) | (2 as z) if z == x % 2:
        y = 0


x = 2
y = None
match x:
    case (0 as z) | (1 as z) | (2 as z) if z == x % 2:
        y = 0


x = 3
y = None
match x:
    case (0 as z) | (1 as z) | (2 as z) if z == x % 2:
        y = 0


x = ()
match x:
    case []:
        y = 0


x = ()
match x:
    case ():
        y = 0


x = (0,)
match x:
    case [0]:
        y = 0


x = ((),)
match x:
    case [[]]:
        y = 0


x = [0, 1]
match x:
    case [0, 1] | [1, 0]:
        y = 0


x = [1, 0]
match x:
    case [0, 1] | [1, 0]:
        y = 0


x = [0, 0]
y = None
match x:
    case [0, 1] | [1, 0]:
        y = 0


w = None
x = [1, 0]
match x:
    case [(0 as w)]:
        y = 0
    case [z] | [1, (0 | 1 as z)] | [z]:
        y = 1


x = [1, 0]
match x:
    case [0]:
        y = 0
    case [1, 0] if (x := x[:0]):
        y = 1
    case [1, 0]:
        y = 2


x = {0}
y = None
match x:
    case [0]:
        y = 0


x = set()
y = None
match x:
    case []:
        y = 0


x = iter([1, 2, 3])
y = None
match x:
    case []:
        y = 0


x = {}
y = None
match x:
    case []:
        y = 0


x = {0: False, 1: True}
y = None
match x:
    case [0, 1]:
        y = 0


x = 0
match x:
    case 0:
        y = 0


x = 0
y = None
match x:
    case False:
        y = 0


x = 0
y = None
match x:
    case 1:
        y = 0


x = 0
y = None
match x:
    case None:
        y = 0


x = 0
match x:
    case 0:
        y = 0
    case 0:
        y = 1


x = 0
y = None
match x:
    case 1:
        y = 0
    case 1:
        y = 1


x = "x"
match x:
    case "x":
        y = 0
    case "y":
        y = 1


x = "x"
match x:
    case "y":
        y = 0
    case "x":
        y = 1


x = "x"
match x:
    case "":
        y = 0
    case "x":
        y = 1


x = b"x"
match x:
    case b"y":
        y = 0
    case b"x":
        y = 1


x = 0
match x:
    case 0 if False:
        y = 0
    case 0:
        y = 1


x = 0
y = None
match x:
    case 0 if 0:
        y = 0
    case 0 if 0:
        y = 1


x = 0
match x:
    case 0 if True:
        y = 0
    case 0 if True:
        y = 1


x = 0
match x:
    case 0 if 1:
        y = 0
    case 0 if 1:
        y = 1


x = 0
match x:
    case 0 if True:
        y = 0
    case 0 if True:
        y = 1
y = 2


x = 0
match x:
    case 0 if 0:
        y = 0
    case 0 if 1:
        y = 1
y = 2


x = 0
y = None
match x:
    case 0 if not (x := 1):
        y = 0
    case 1:
        y = 1


x = "x"
match x:
    case ["x"]:
        y = 0
    case "x":
        y = 1


x = b"x"
match x:
    case [b"x"]:
        y = 0
    case ["x"]:
        y = 1
    case [120]:
        y = 2
    case b"x":
        y = 4


x = bytearray(b"x")
y = None
match x:
    case [120]:
        y = 0
    case 120:
        y = 1


x = ""
match x:
    case []:
        y = 0
    case [""]:
        y = 1
    case "":
        y = 2


x = "xxx"
match x:
    case ["x", "x", "x"]:
        y = 0
    case ["xxx"]:
        y = 1
    case "xxx":
        y = 2


x = b"xxx"
match x:
    case [120, 120, 120]:
        y = 0
    case [b"xxx"]:
        y = 1
    case b"xxx":
        y = 2


x = 0
match x:
    case 0 if not (x := 1):
        y = 0
    case (0 as z):
        y = 1


x = 0
match x:
    case (1 as z) if not (x := 1):
        y = 0
    case 0:
        y = 1


x = 0
match x:
    case (0 as z):
        y = 0


x = 0
y = None
match x:
    case (1 as z):
        y = 0


x = 0
y = None
match x:
    case (0 as z) if (w := 0):
        y = 0


x = 0
match x:
    case ((0 as w) as z):
        y = 0


x = 0
match x:
    case (0 | 1) | 2:
        y = 0


x = 1
match x:
    case (0 | 1) | 2:
        y = 0


x = 2
match x:
    case (0 | 1) | 2:
        y = 0


x = 3
y = None
match x:
    case (0 | 1) | 2:
        y = 0


x = 0
match x:
    case 0 | (1 | 2):
        y = 0


x = 1
match x:
    case 0 | (1 | 2):
        y = 0


x = 2
match x:
    case 0 | (1 | 2):
        y = 0


x = 3
y = None
match x:
    case 0 | (1 | 2):
        y = 0


x = 0
match x:
    case -0:
        y = 0


x = 0
match x:
    case -0.0:
        y = 0


x = 0
match x:
    case -0j:
        y = 0


x = 0
match x:
    case -0.0j:
        y = 0


x = -1
match x:
    case -1:
        y = 0


x = -1.5
match x:
    case -1.5:
        y = 0


x = -1j
match x:
    case -1j:
        y = 0


x = -1.5j
match x:
    case -1.5j:
        y = 0


x = 0
match x:
    case 0 + 0j:
        y = 0


x = 0
match x:
    case 0 - 0j:
        y = 0


x = 0
match x:
    case -0 + 0j:
        y = 0


x = 0
match x:
    case -0 - 0j:
        y = 0


x = 0.25 + 1.75j
match x:
    case 0.25 + 1.75j:
        y = 0


x = 0.25 - 1.75j
match x:
    case 0.25 - 1.75j:
        y = 0


x = -0.25 + 1.75j
match x:
    case -0.25 + 1.75j:
        y = 0


x = -0.25 - 1.75j
match x:
    case -0.25 - 1.75j:
        y = 0


class A:
    B = 0
x = 0
match x:
    case A.B:
        y = 0


class A:
    class B:
        C = 0
x = 0
match x:
    case A.B.C:
        y = 0


class A:
    class B:
        C = 0
        D = 1
x = 1
match x:
    case A.B.C:
        y = 0
    case A.B.D:
        y = 1


class A:
    class B:
        class C:
            D = 0
x = 0
match x:
    case A.B.C.D:
        y = 0


class A:
    class B:
        class C:
            D = 0
            E = 1
x = 1
match x:
    case A.B.C.D:
        y = 0
    case A.B.C.E:
        y = 1


match = case = 0
match match:
    case case:
        x = 0


match = case = 0
match case:
    case match:
        x = 0


x = []
match x:
    case [*_, _]:
        y = 0
    case []:
        y = 1


x = collections.defaultdict(int)
match x:
    case {0: 0}:
        y = 0
    case {}:
        y = 1


x = collections.defaultdict(int)
match x:
    case {0: 0}:
        y = 0
    case {**z}:
        y = 1


match ():
    case ():
        x = 0


match (0, 1, 2):
    case (*x,):
        y = 0


match (0, 1, 2):
    case 0, *x:
        y = 0


match (0, 1, 2):
    case (0, 1, *x,):
        y = 0


match (0, 1, 2):
    case 0, 1, 2, *x:
        y = 0


match (0, 1, 2):
    case *x, 2,:
        y = 0


match (0, 1, 2):
    case (*x, 1, 2):
        y = 0


match (0, 1, 2):
    case *x, 0, 1, 2,:
        y = 0


match (0, 1, 2):
    case (0, *x, 2):
        y = 0


match (0, 1, 2):
    case 0, 1, *x, 2,:
        y = 0


match (0, 1, 2):
    case (0, *x, 1, 2):
        y = 0


match (0, 1, 2):
    case *x,:
        y = 0


x = collections.defaultdict(int, {0: 1})
match x:
    case {1: 0}:
        y = 0
    case {0: 0}:
        y = 1
    case {}:
        y = 2


x = collections.defaultdict(int, {0: 1})
match x:
    case {1: 0}:
        y = 0
    case {0: 0}:
        y = 1
    case {**z}:
        y = 2


x = collections.defaultdict(int, {0: 1})
match x:
    case {1: 0}:
        y = 0
    case {0: 0}:
        y = 1
    case {0: _, **z}:
        y = 2


x = {0: 1}
match x:
    case {1: 0}:
        y = 0
    case {0: 0}:
        y = 0
    case {}:
        y = 1


x = {0: 1}
match x:
    case {1: 0}:
        y = 0
    case {0: 0}:
        y = 0
    case {**z}:
        y = 1


x = {0: 1}
match x:
    case {1: 0}:
        y = 0
    case {0: 0}:
        y = 0
    case {0: _, **z}:
        y = 1


x = False
match x:
    case bool(z):
        y = 0


x = True
match x:
    case bool(z):
        y = 0


x = bytearray()
match x:
    case bytearray(z):
        y = 0


x = b""
match x:
    case bytes(z):
        y = 0


x = {}
match x:
    case dict(z):
        y = 0


x = 0.0
match x:
    case float(z):
        y = 0


x = frozenset()
match x:
    case frozenset(z):
        y = 0


x = 0
match x:
    case int(z):
        y = 0


x = []
match x:
    case list(z):
        y = 0


x = set()
match x:
    case set(z):
        y = 0


x = ""
match x:
    case str(z):
        y = 0


x = ()
match x:
    case tuple(z):
        y = 0


x = 0
match x,:
    case y,:
        z = 0


w = 0
x = 0
match w, x:
    case y, z:
        v = 0


x = 0
match w := x,:
    case y as v,:
        z = 0


x = 0
y = None
match x:
    case 0 if x:
        y = 0


x = 0
y = None
match x:
    case 1e1000:
        y = 0


x = 0
match x:
    case z:
        y = 0


x = 0
y = None
match x:
    case _ if x:
        y = 0


x = 0
match x:
    case -1e1000:
        y = 0
    case 0:
        y = 1


x = 0
match x:
    case 0 if not x:
        y = 0
    case 1:
        y = 1


x = 0
z = None
match x:
    case 0:
        y = 0
    case z if x:
        y = 1


x = 0
match x:
    case 0:
        y = 0
    case _:
        y = 1


x = 0
match x:
    case 1 if x:
        y = 0
    case 0:
        y = 1


x = 0
y = None
match x:
    case 1:
        y = 0
    case 1 if not x:
        y = 1


x = 0
match x:
    case 1:
        y = 0
    case z:
        y = 1


x = 0
match x:
    case 1 if x:
        y = 0
    case _:
        y = 1


x = 0
match x:
    case z if not z:
        y = 0
    case 0 if x:
        y = 1


x = 0
match x:
    case z if not z:
        y = 0
    case 1:
        y = 1


x = 0
match x:
    case z if not x:
        y = 0
    case z:
        y = 1


x = 0
match x:
    case z if not z:
        y = 0
    case _ if x:
        y = 1


x = 0
match x:
    case _ if not x:
        y = 0
    case 0:
        y = 1


x = 0
y = None
match x:
    case _ if x:
        y = 0
    case 1:
        y = 1


x = 0
z = None
match x:
    case _ if not x:
        y = 0
    case z if not x:
        y = 1


x = 0
match x:
    case _ if not x:
        y = 0
    case _:
        y = 1


match status:
    case 400:
        return "Bad request"
    case 401:
        return "Unauthorized"
    case 403:
        return "Forbidden"
    case 404:
        return "Not found"
    case 418:
        return "I'm a teapot"
    case _:
        return "Something else"


match status:
    case 400:
        return "Bad request"
    case 401 | 403 | 404:
        return "Not allowed"
    case 418:
        return "I'm a teapot"


match point:
    case (0, 0):
        return "Origin"
    case (0, y):
        return f"Y={y}"
    case (x, 0):
        return f"X={x}"
    case (x, y):
        return f"X={x}, Y={y}"
    case _:
        raise ValueError("Not a point")


match point:
    case Point(0, 0):
        return "Origin"
    case Point(0, y):
        return f"Y={y}"
    case Point(x, 0):
        return f"X={x}"
    case Point():
        return "Somewhere else"
    case _:
        return "Not a point"


match point:
    case Point(1, var):
        return var


match point:
    case Point(1, y=var):
        return var


match point:
    case Point(x=1, y=var):
        return var


match point:
    case Point(y=var, x=1):
        return var


match points:
    case []:
        return "No points"
    case [Point(0, 0)]:
        return "The origin"
    case [Point(x, y)]:
        return f"Single point {x}, {y}"
    case [Point(0, y1), Point(0, y2)]:
        return f"Two on the Y axis at {y1}, {y2}"
    case _:
        return "Something else"


match point:
    case Point(x, y) if x == y:
        return f"Y=X at {x}"
    case Point(x, y):
        return "Not on the diagonal"


class Seq(collections.abc.Sequence):
    __getitem__ = None
    def __len__(self):
        return 0
match Seq():
    case []:
        y = 0


class Seq(collections.abc.Sequence):
    __getitem__ = None
    def __len__(self):
        return 42
match Seq():
    case [*_]:
        y = 0


class Seq(collections.abc.Sequence):
    def __getitem__(self, i):
        return i
    def __len__(self):
        return 42
match Seq():
    case [x, *_, y]:
        z = 0


w = range(10)
match w:
    case [x, y, *rest]:
        z = 0

w = range(100)
match w:
    case (x, y, *rest):
        z = 0


w = range(1000)
match w:
    case x, y, *rest:
        z = 0


w = range(1 << 10)
match w:
    case [x, y, *_]:
        z = 0


w = range(1 << 20)
match w:
    case (x, y, *_):
        z = 0


w = range(1 << 30)
match w:
    case x, y, *_:
        z = 0


x = {"bandwidth": 0, "latency": 1}
match x:
    case {"bandwidth": b, "latency": l}:
        y = 0


x = {"bandwidth": 0, "latency": 1, "key": "value"}
match x:
    case {"latency": l, "bandwidth": b}:
        y = 0


x = {"bandwidth": 0, "latency": 1, "key": "value"}
match x:
    case {"bandwidth": b, "latency": l, **rest}:
        y = 0


x = {"bandwidth": 0, "latency": 1}
match x:
    case {"latency": l, "bandwidth": b, **rest}:
        y = 0


w = [Point(-1, 0), Point(1, 2)]
match w:
    case (Point(x1, y1), Point(x2, y2) as p2):
        z = 0


class Color(enum.Enum):
    RED = 0
    GREEN = 1
    BLUE = 2

    match color:
        case Color.RED:
            return "I see red!"
        case Color.GREEN:
            return "Grass is green"
        case Color.BLUE:
            return "I'm feeling the blues :("


class Color(int, enum.Enum):
    RED = 0
    GREEN = 1
    BLUE = 2

    match color:
        case Color.RED:
            return "I see red!"
        case Color.GREEN:
            return "Grass is green"
        case Color.BLUE:
            return "I'm feeling the blues :("

class Class:
    __match_args__ = ("a", "b")
c = Class()
c.a = 0
c.b = 1
match c:
    case Class(x, y):
        z = 0

class Class:
    __match_args__ = ("a", "b")
c = Class()
c.a = 0
c.b = 1
match c:
    case Class(x, b=y):
        z = 0


class Parent:
    __match_args__ = "a", "b"
class Child(Parent):
    __match_args__ = ("c", "d")
c = Child()
c.a = 0
c.b = 1
match c:
    case Parent(x, y):
        z = 0


class Parent:
    __match_args__ = ("a", "b")
class Child(Parent):
    __match_args__ = "c", "d"
c = Child()
c.a = 0
c.b = 1
match c:
    case Parent(x, b=y):
        z = 0

match w:
    case 42:
        out = locals()
        del out["w"]
        return out


match w:
    case 42.0:
        out = locals()
        del out["w"]
        return out


match w:
    case 1 | 2 | 3:
        out = locals()
        del out["w"]
        return out

match w:
    case [1, 2] | [3, 4]:
        out = locals()
        del out["w"]
        return out

match w:
    case x:
        out = locals()
        del out["w"]
        return out

match w:
    case _:
        out = locals()
        del out["w"]
        return out

match w:
    case (x, y, z):
        out = locals()
        del out["w"]
        return out

match w:
    case {"x": x, "y": "y", "z": z}:
        out = locals()
        del out["w"]
        return out

match w:
    case MyClass(int(xx), y="hello"):
        out = locals()
        del out["w"]
        return out

match w:
    case (p, q) as x:
        out = locals()
        del out["w"]
        return out

match 42:
    case 42:
        return locals()

match 1:
    case 1 | 2 | 3:
        return locals()

match ...:
    case _:
        return locals()

match ...:
    case abc:
        return locals()

match ..., ...:
    case a, b:
        return locals()

match {"k": ..., "l": ...}:
    case {"k": a, "l": b}:
        return locals()

match MyClass(..., ...):
    case MyClass(x, y=y):
        return locals()

match ...:
    case b as a:
        return locals()

match x:
    case _:
        return 0

match x:
    case 0:
        return 0

match x:
    case 0:
        return 0
    case _:
        return 1

match x:
    case 0:
        return 0
    case 1:
        return 1

match x:
    case 0:
        return 0
    case 1:
        return 1
    case _:
        return 2

match x:
    case 0:
        return 0
    case 1:
        return 1
    case 2:
        return 2
