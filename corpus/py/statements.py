pass
pass;

assert a
assert a; assert b
assert a, "eee"

raise RuntimeError
raise RuntimeError from e

return
return 1
return 1,
return *a

del a
del (a)
del a, b,
del a[:]
del a.b
del (a,)
del (a, b)
del [a, b]
del a;

global a
global a, b
nonlocal a
nonlocal a, b

yield a
yield from a


for i in a:
    pass

for i, in a:
    pass

for (i,) in a:
    pass

for (i,), in a:
    pass

for i, *j in a:
    pass

for i, (a, *b) in a:
    pass

async for i in a:
    pass

async for i, in a:
    pass

async for (i,) in a:
    pass

async for (i,), in a:
    pass

async for i, *j in a:
    pass

async for i, (a, *b) in a:
    pass

for i in b:
    pass
else:
    pass


if a:
    b=1

if a:
    pass
else:
    pass

if a:
    pass
elif b:
    pass
else:
    pass

if a:
    pass
elif b:
    pass
elif c:
    pass


while s:
    pass

while False:
    pass
else:
    pass


for i in a:
    continue

for i in a:
    break


with a:
    pass

with a, b:
    pass

with a as b:
    pass

with a as b, c:
    pass

async with a:
    pass

async with a, b:
    pass

async with a as b:
    pass

async with a as b, c:
    pass


try:
    pass
finally:
    pass


try:
    pass
except:
    raise
finally:
    pass

try:
    pass
except ValueError:
    pass
except (IndexError, RuntimeError,):
    pass
except Exception as e:
    pass
else:
    pass
finally:
    pass
