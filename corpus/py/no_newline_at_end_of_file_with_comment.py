if a:
    b = 1

# test