with (a, c,):
    pass

with (a as b, c):
    pass

async with (a, c,):
    pass

async with (a as b, c):
    pass
