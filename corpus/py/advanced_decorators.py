@d[a]
def f():
    pass


@d
@d()
@d(a)
@d[a]
def f():
    pass
