# function
def get_repo_url():
    raw = $(git remote get-url --push origin).rstrip()
    return raw.replace('https://github.com/', '')
