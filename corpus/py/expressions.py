a + b
a - b
a * b
a / b
a // b
a % b
a @ b
a << b
a >> b
a | b
a ^ b
a ** b
a == b
a < b
a <= b
a > b
a >= b
a != b
a & b
~a
(1, 2, 3)
["a", "b"]
{1, 2}
{a: a.b}
{**d, a: b}

not b
a if b else c
a or b
a and b
a in b
a not in b
a is b
a is not b

a * (+1)
a * (-1)
a * (~1)

(a)
(yield a)



"""
some long lines
more lines
"""



r"""
some long lines
more line
"""
